use crate::{
    Block, Key,
    consts::{P, P_INV},
    utils::{KEYGEN, l_step},
};
use cipher::{
    BlockCipherDecBackend, BlockCipherEncBackend, BlockSizeUser, InOut, ParBlocksSizeUser, consts,
};

pub(super) type RoundKeys = [Block; 10];

#[inline(always)]
fn x(a: &mut Block, b: &Block) {
    for i in 0..16 {
        a[i] ^= b[i];
    }
}

#[inline(always)]
fn lsx(block: &mut Block, key: &Block) {
    x(block, key);
    // s
    for i in 0..16 {
        block[i] = P[block[i] as usize];
    }
    // l
    for i in 0..16 {
        block.0 = l_step(block.0, i);
    }
}

#[inline(always)]
fn lsx_inv(block: &mut Block, key: &Block) {
    x(block, key);
    // l_inv
    for i in 0..16 {
        block.0 = l_step(block.0, 15 - i);
    }
    // s_inv
    for i in 0..16 {
        block[15 - i] = P_INV[block[15 - i] as usize];
    }
}

fn get_c(n: usize) -> Block {
    KEYGEN[n].0.into()
}

fn f(k1: &mut Block, k2: &mut Block, n: usize) {
    for i in 0..4 {
        let mut k1_cpy = *k1;
        lsx(&mut k1_cpy, &get_c(8 * n + 2 * i));
        x(k2, &k1_cpy);

        let mut k2_cpy = *k2;
        lsx(&mut k2_cpy, &get_c(8 * n + 2 * i + 1));
        x(k1, &k2_cpy);
    }
}

pub(super) fn expand(key: &Key) -> RoundKeys {
    let mut keys = RoundKeys::default();

    let mut k1 = Block::default();
    let mut k2 = Block::default();

    k1.copy_from_slice(&key[..16]);
    k2.copy_from_slice(&key[16..]);

    keys[0] = k1;
    keys[1] = k2;

    for i in 1..5 {
        f(&mut k1, &mut k2, i - 1);
        keys[2 * i] = k1;
        keys[2 * i + 1] = k2;
    }
    keys
}

pub(crate) struct EncBackend<'a>(pub(crate) &'a RoundKeys);

impl BlockSizeUser for EncBackend<'_> {
    type BlockSize = consts::U16;
}

impl ParBlocksSizeUser for EncBackend<'_> {
    type ParBlocksSize = consts::U1;
}

impl BlockCipherEncBackend for EncBackend<'_> {
    #[inline]
    fn encrypt_block(&self, mut block: InOut<'_, '_, Block>) {
        let mut b = *block.get_in();
        for i in 0..9 {
            lsx(&mut b, &self.0[i]);
        }
        x(&mut b, &self.0[9]);
        *block.get_out() = b;
    }
}

pub(crate) struct DecBackend<'a>(pub(crate) &'a RoundKeys);

impl BlockSizeUser for DecBackend<'_> {
    type BlockSize = consts::U16;
}

impl ParBlocksSizeUser for DecBackend<'_> {
    type ParBlocksSize = consts::U1;
}

impl BlockCipherDecBackend for DecBackend<'_> {
    #[inline]
    fn decrypt_block(&self, mut block: InOut<'_, '_, Block>) {
        let mut b = *block.get_in();
        for i in 0..9 {
            lsx_inv(&mut b, &self.0[9 - i]);
        }
        x(&mut b, &self.0[0]);
        *block.get_out() = b;
    }
}
