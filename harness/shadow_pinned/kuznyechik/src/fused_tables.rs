use crate::{
    consts,
    gft::{GFT_16, GFT_32, GFT_133, GFT_148, GFT_192, GFT_194, GFT_251},
    utils::Align16,
};

pub(crate) type Table = Align16<[u8; 16 * 4096]>;
pub(crate) static ENC_TABLE: Table = Align16(fused_enc_table());
pub(crate) static DEC_TABLE: Table = Align16(fused_dec_table());

const fn fused_enc_table() -> [u8; 16 * 4096] {
    let mut table = [0u8; 16 * 4096];

    let mut i = 0;
    let mut pos = 0;
    while i < 16 {
        let mut j = 0;
        while j < 256 {
            table[pos + i] = consts::P[j];

            let mut n = 0;
            while n < 16 {
                let mut x = table[pos + 15];
                x ^= GFT_148[table[pos + 14] as usize];
                x ^= GFT_32[table[pos + 13] as usize];
                x ^= GFT_133[table[pos + 12] as usize];
                x ^= GFT_16[table[pos + 11] as usize];
                x ^= GFT_194[table[pos + 10] as usize];
                x ^= GFT_192[table[pos + 9] as usize];
                x ^= table[pos + 8];
                x ^= GFT_251[table[pos + 7] as usize];
                x ^= table[pos + 6];
                x ^= GFT_192[table[pos + 5] as usize];
                x ^= GFT_194[table[pos + 4] as usize];
                x ^= GFT_16[table[pos + 3] as usize];
                x ^= GFT_133[table[pos + 2] as usize];
                x ^= GFT_32[table[pos + 1] as usize];
                x ^= GFT_148[table[pos] as usize];

                // Strictly speaking, we don't need to move these bytes around because
                // we do 16 iterations. See the `l_step` function for the reference.
                // Unfortunately, we can not use the `l_step` function directly because
                // of const eval limitations.
                let mut k = 15;
                while k > 0 {
                    k -= 1;
                    table[pos + k + 1] = table[pos + k];
                }
                table[pos] = x;

                n += 1;
            }

            j += 1;
            pos += 16;
        }
        i += 1;
    }

    table
}

const fn fused_dec_table() -> [u8; 16 * 4096] {
    let mut table = [0u8; 16 * 4096];

    let mut i = 0;
    let mut pos = 0;
    while i < 16 {
        let mut j = 0;
        while j < 256 {
            table[pos + i] = consts::P_INV[j];

            let mut n = 0;
            while n < 16 {
                let mut x = table[pos];
                x ^= GFT_148[table[pos + 1] as usize];
                x ^= GFT_32[table[pos + 2] as usize];
                x ^= GFT_133[table[pos + 3] as usize];
                x ^= GFT_16[table[pos + 4] as usize];
                x ^= GFT_194[table[pos + 5] as usize];
                x ^= GFT_192[table[pos + 6] as usize];
                x ^= table[pos + 7];
                x ^= GFT_251[table[pos + 8] as usize];
                x ^= table[pos + 9];
                x ^= GFT_192[table[pos + 10] as usize];
                x ^= GFT_194[table[pos + 11] as usize];
                x ^= GFT_16[table[pos + 12] as usize];
                x ^= GFT_133[table[pos + 13] as usize];
                x ^= GFT_32[table[pos + 14] as usize];
                x ^= GFT_148[table[pos + 15] as usize];

                // See comment in the `fused_enc_table` function.
                let mut k = 0;
                while k < 15 {
                    table[pos + k] = table[pos + k + 1];
                    k += 1;
                }
                table[pos + 15] = x;

                n += 1;
            }

            j += 1;
            pos += 16;
        }
        i += 1;
    }
    table
}
