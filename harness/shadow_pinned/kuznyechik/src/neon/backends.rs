#![allow(unsafe_op_in_unsafe_fn)]

use crate::{
    Block, Key,
    consts::{P, P_INV},
    fused_tables::{DEC_TABLE, ENC_TABLE, Table},
    utils::KEYGEN,
};
use cipher::{
    BlockCipherDecBackend, BlockCipherEncBackend, BlockSizeUser, InOut, ParBlocks,
    ParBlocksSizeUser, consts, typenum::Unsigned,
};

use core::arch::aarch64::*;

pub(super) type RoundKeys = [uint8x16_t; 10];

type ParBlocksSize = consts::U8;

#[rustfmt::skip]
macro_rules! unroll_par {
    ($var:ident, $body:block) => {
        { let $var: usize = 0; $body; }
        { let $var: usize = 1; $body; }
        { let $var: usize = 2; $body; }
        { let $var: usize = 3; $body; }
        { let $var: usize = 4; $body; }
        { let $var: usize = 5; $body; }
        { let $var: usize = 6; $body; }
        { let $var: usize = 7; $body; }

    };
}

#[inline(always)]
unsafe fn sub_bytes(block: uint8x16_t, sbox: &[u8; 256]) -> uint8x16_t {
    let value_vector = vdupq_n_u8(64);

    //Split the sbox table into four parts
    let sbox_part1 = uint8x16x4_t(
        vld1q_u8(&sbox[0] as *const u8),
        vld1q_u8(&sbox[16] as *const u8),
        vld1q_u8(&sbox[32] as *const u8),
        vld1q_u8(&sbox[48] as *const u8),
    );

    let sbox_part2 = uint8x16x4_t(
        vld1q_u8(&sbox[64] as *const u8),
        vld1q_u8(&sbox[80] as *const u8),
        vld1q_u8(&sbox[96] as *const u8),
        vld1q_u8(&sbox[112] as *const u8),
    );

    let sbox_part3 = uint8x16x4_t(
        vld1q_u8(&sbox[128] as *const u8),
        vld1q_u8(&sbox[144] as *const u8),
        vld1q_u8(&sbox[160] as *const u8),
        vld1q_u8(&sbox[176] as *const u8),
    );

    let sbox_part4 = uint8x16x4_t(
        vld1q_u8(&sbox[192] as *const u8),
        vld1q_u8(&sbox[208] as *const u8),
        vld1q_u8(&sbox[224] as *const u8),
        vld1q_u8(&sbox[240] as *const u8),
    );

    // Indexing each part of the sbox table
    let result1 = vqtbl4q_u8(sbox_part1, block);
    let block_1 = vsubq_u8(block, value_vector);
    let result2 = vqtbl4q_u8(sbox_part2, block_1);
    let block_2 = vsubq_u8(block_1, value_vector);
    let result3 = vqtbl4q_u8(sbox_part3, block_2);
    let block_3 = vsubq_u8(block_2, value_vector);
    let result4 = vqtbl4q_u8(sbox_part4, block_3);
    // Merging results
    let result = vorrq_u8(vorrq_u8(result1, result2), vorrq_u8(result3, result4));

    result
}

#[inline(always)]
unsafe fn transform(block: uint8x16_t, table: &Table) -> uint8x16_t {
    macro_rules! get {
        ($table:expr, $ind:expr, $i:expr) => {{
            let idx = vgetq_lane_u16($ind, $i) as usize;
            let p = $table.0.as_ptr().add(idx);
            // correct alignment of `p` is guaranteed since offset values
            // are shifted by 4 bits left and the table is aligned to 16 bytes
            debug_assert_eq!(p as usize % 16, 0);
            vld1q_u8(p)
        }};
    }

    macro_rules! xor_get {
        ($val:expr, $table:expr, $ind:expr, $i:expr) => {
            $val = veorq_u8($val, get!($table, $ind, $i));
        };
    }

    let ind = vcombine_u8(
        vcreate_u8(0x0706050403020100),
        vcreate_u8(0x0f0e0d0c0b0a0908),
    );
    let test = vzip1q_u8(block, ind);

    let lind = vshlq_n_u16(vreinterpretq_u16_u8(test), 4);

    let mut lt = get!(table, lind, 0);

    xor_get!(lt, table, lind, 1);
    xor_get!(lt, table, lind, 2);
    xor_get!(lt, table, lind, 3);
    xor_get!(lt, table, lind, 4);
    xor_get!(lt, table, lind, 5);
    xor_get!(lt, table, lind, 6);
    xor_get!(lt, table, lind, 7);

    let rind = vshlq_n_u16(vreinterpretq_u16_u8(vzip2q_u8(block, ind)), 4);

    let mut rt = get!(table, rind, 0);
    xor_get!(rt, table, rind, 1);
    xor_get!(rt, table, rind, 2);
    xor_get!(rt, table, rind, 3);
    xor_get!(rt, table, rind, 4);
    xor_get!(rt, table, rind, 5);
    xor_get!(rt, table, rind, 6);
    xor_get!(rt, table, rind, 7);

    veorq_u8(lt, rt)
}

pub fn expand_enc_keys(key: &Key) -> RoundKeys {
    macro_rules! next_const {
        ($i:expr) => {{
            let p = KEYGEN.as_ptr() as *const uint8x16_t;
            // correct alignment of `p` is guaranteed since the table
            // is aligned to 16 bytes
            let p = p.add($i);
            debug_assert_eq!(p as usize % 16, 0);
            $i += 1;
            vld1q_u8(p as *const u8)
        }};
    }

    unsafe {
        let mut enc_keys = [vdupq_n_u8(0); 10];

        let pk: *const uint8x16_t = key.as_ptr() as *const uint8x16_t;
        let mut k1 = vld1q_u8(pk as *const u8);
        let mut k2 = vld1q_u8(pk.add(1) as *const u8);
        enc_keys[0] = k1;
        enc_keys[1] = k2;

        let mut cidx = 0;
        for i in 1..5 {
            for _ in 0..4 {
                let mut t = veorq_u8(k1, next_const!(cidx));
                t = transform(t, &ENC_TABLE);
                k2 = veorq_u8(k2, t);

                let mut t = veorq_u8(k2, next_const!(cidx));
                t = transform(t, &ENC_TABLE);
                k1 = veorq_u8(k1, t);
            }

            enc_keys[2 * i] = k1;
            enc_keys[2 * i + 1] = k2;
        }

        enc_keys
    }
}

pub fn inv_enc_keys(enc_keys: &RoundKeys) -> RoundKeys {
    unsafe {
        let mut dec_keys = [vdupq_n_u8(0); 10];

        dec_keys[0] = enc_keys[9];
        for i in 1..9 {
            let k = sub_bytes(enc_keys[i], &P);
            dec_keys[9 - i] = transform(k, &DEC_TABLE);
        }
        dec_keys[9] = enc_keys[0];

        dec_keys
    }
}

pub(crate) struct EncBackend<'a>(pub(crate) &'a RoundKeys);

impl BlockSizeUser for EncBackend<'_> {
    type BlockSize = consts::U16;
}

impl ParBlocksSizeUser for EncBackend<'_> {
    type ParBlocksSize = ParBlocksSize;
}

impl BlockCipherEncBackend for EncBackend<'_> {
    #[inline]
    fn encrypt_block(&self, block: InOut<'_, '_, Block>) {
        let k = self.0;
        unsafe {
            let (in_ptr, out_ptr) = block.into_raw();
            let mut b = vld1q_u8(in_ptr as *const u8);

            for i in 0..9 {
                b = veorq_u8(b, k[i]);
                b = transform(b, &ENC_TABLE);
            }
            b = veorq_u8(b, k[9]);
            vst1q_u8(out_ptr as *mut u8, b);
        }
    }

    #[inline]
    fn encrypt_par_blocks(&self, blocks: InOut<'_, '_, ParBlocks<Self>>) {
        let k = self.0;
        unsafe {
            let (in_ptr, out_ptr) = blocks.into_raw();
            let in_ptr = in_ptr as *mut uint8x16_t;
            let out_ptr = out_ptr as *mut uint8x16_t;

            let mut blocks = [vdupq_n_u8(0); ParBlocksSize::USIZE];
            unroll_par! {
                i, {
                    blocks[i] = vld1q_u8(in_ptr.add(i) as *const u8);
                }
            };

            for i in 0..9 {
                unroll_par!(j, {
                    let t = veorq_u8(blocks[j], k[i]);
                    blocks[j] = transform(t, &ENC_TABLE);
                });
            }

            unroll_par! {
                i, {
                    let t = veorq_u8(blocks[i], k[9]);
                    vst1q_u8(out_ptr.add(i) as *mut u8, t);
                }
            };
        }
    }
}

pub(crate) struct DecBackend<'a>(pub(crate) &'a RoundKeys);

impl BlockSizeUser for DecBackend<'_> {
    type BlockSize = consts::U16;
}

impl ParBlocksSizeUser for DecBackend<'_> {
    type ParBlocksSize = ParBlocksSize;
}

impl BlockCipherDecBackend for DecBackend<'_> {
    #[inline]
    fn decrypt_block(&self, block: InOut<'_, '_, Block>) {
        let k = self.0;
        unsafe {
            let (in_ptr, out_ptr) = block.into_raw();
            let mut b = vld1q_u8(in_ptr as *const u8);

            b = veorq_u8(b, k[0]);

            b = sub_bytes(b, &P);
            b = transform(b, &DEC_TABLE);

            for i in 1..9 {
                b = transform(b, &DEC_TABLE);
                b = veorq_u8(b, k[i]);
            }
            b = sub_bytes(b, &P_INV);
            b = veorq_u8(b, k[9]);

            vst1q_u8(out_ptr as *mut u8, b);
        }
    }
    #[inline]
    fn decrypt_par_blocks(&self, blocks: InOut<'_, '_, ParBlocks<Self>>) {
        let k = self.0;
        unsafe {
            let (in_ptr, out_ptr) = blocks.into_raw();
            let in_ptr = in_ptr as *mut uint8x16_t;
            let out_ptr = out_ptr as *mut uint8x16_t;

            let mut blocks = [vdupq_n_u8(0); ParBlocksSize::USIZE];
            unroll_par! {
                i, {
                    blocks[i] = vld1q_u8(in_ptr.add(i) as *const u8);
                }
            };

            unroll_par! {
                i, {
                    let t = veorq_u8(blocks[i], k[0]);
                    let t = sub_bytes(t, &P);
                    blocks[i] = transform(t, &DEC_TABLE);
                }
            }

            for i in 1..9 {
                unroll_par! {
                    j, {
                        let t = transform(blocks[j], &DEC_TABLE);
                        blocks[j] = veorq_u8(t, k[i]);
                    }
                }
            }

            unroll_par! {
                i, {
                    let t = sub_bytes(blocks[i], &P_INV);
                    let t2 = veorq_u8(t, k[9]);
                    vst1q_u8(out_ptr.add(i) as *mut u8, t2);
                }
            }
        }
    }
}
