use crate::gft::{GFT_16, GFT_32, GFT_133, GFT_148, GFT_192, GFT_194, GFT_251};

#[inline(always)]
const fn get_idx(b: usize, i: usize) -> usize {
    b.wrapping_sub(i) & 0x0F
}

#[inline(always)]
const fn get_m(msg: [u8; 16], b: usize, i: usize) -> usize {
    msg[get_idx(b, i)] as usize
}

pub(crate) const fn l_step(mut msg: [u8; 16], i: usize) -> [u8; 16] {
    let mut x = msg[get_idx(15, i)];
    x ^= GFT_148[get_m(msg, 14, i)];
    x ^= GFT_32[get_m(msg, 13, i)];
    x ^= GFT_133[get_m(msg, 12, i)];
    x ^= GFT_16[get_m(msg, 11, i)];
    x ^= GFT_194[get_m(msg, 10, i)];
    x ^= GFT_192[get_m(msg, 9, i)];
    x ^= msg[get_idx(8, i)];
    x ^= GFT_251[get_m(msg, 7, i)];
    x ^= msg[get_idx(6, i)];
    x ^= GFT_192[get_m(msg, 5, i)];
    x ^= GFT_194[get_m(msg, 4, i)];
    x ^= GFT_16[get_m(msg, 3, i)];
    x ^= GFT_133[get_m(msg, 2, i)];
    x ^= GFT_32[get_m(msg, 1, i)];
    x ^= GFT_148[get_m(msg, 0, i)];
    msg[get_idx(15, i)] = x;
    msg
}

#[repr(align(16))]
#[derive(Clone, Copy)]
pub(crate) struct Align16<T>(pub T);

/// Constants used to generate round keys
pub(crate) static KEYGEN: [Align16<[u8; 16]>; 32] = {
    let mut res = [Align16([0u8; 16]); 32];
    let mut n = 0;
    while n < res.len() {
        let mut block = [0u8; 16];
        block[15] = (n + 1) as u8;

        let mut i = 0;
        while i < 16 {
            block = l_step(block, i);
            i += 1;
        }
        res[n].0 = block;
        n += 1;
    }
    res
};
