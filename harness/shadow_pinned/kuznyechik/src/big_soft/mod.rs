use crate::{BlockSize, Key};
use cipher::{
    BlockCipherDecClosure, BlockCipherDecrypt, BlockCipherEncClosure, BlockCipherEncrypt,
};

mod backends;

use backends::{DecBackend, EncBackend, RoundKeys, expand_enc_keys, inv_enc_keys};

#[derive(Clone)]
pub(crate) struct EncDecKeys {
    enc: RoundKeys,
    dec: RoundKeys,
}
#[derive(Clone)]
pub(crate) struct EncKeys(RoundKeys);
#[derive(Clone)]
pub(crate) struct DecKeys(RoundKeys);

impl EncKeys {
    pub fn new(key: &Key) -> Self {
        Self(expand_enc_keys(key))
    }
}

impl From<EncKeys> for EncDecKeys {
    fn from(enc: EncKeys) -> Self {
        Self {
            dec: inv_enc_keys(&enc.0),
            enc: enc.0,
        }
    }
}

impl From<EncKeys> for DecKeys {
    fn from(enc: EncKeys) -> Self {
        Self(inv_enc_keys(&enc.0))
    }
}

impl BlockCipherEncrypt for crate::Kuznyechik {
    fn encrypt_with_backend(&self, f: impl BlockCipherEncClosure<BlockSize = BlockSize>) {
        f.call(&mut EncBackend(&self.keys.enc));
    }
}

impl BlockCipherDecrypt for crate::Kuznyechik {
    fn decrypt_with_backend(&self, f: impl BlockCipherDecClosure<BlockSize = BlockSize>) {
        f.call(&mut DecBackend(&self.keys.dec));
    }
}

impl BlockCipherEncrypt for crate::KuznyechikEnc {
    fn encrypt_with_backend(&self, f: impl BlockCipherEncClosure<BlockSize = BlockSize>) {
        f.call(&mut EncBackend(&self.keys.0));
    }
}

impl BlockCipherDecrypt for crate::KuznyechikDec {
    fn decrypt_with_backend(&self, f: impl BlockCipherDecClosure<BlockSize = BlockSize>) {
        f.call(&mut DecBackend(&self.keys.0));
    }
}
