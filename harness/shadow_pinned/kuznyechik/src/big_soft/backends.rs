use crate::{
    Block, Key,
    consts::{P, P_INV},
    fused_tables::{DEC_TABLE, ENC_TABLE, Table},
    utils::KEYGEN,
};
use cipher::{
    Array, BlockCipherDecBackend, BlockCipherEncBackend, BlockSizeUser, InOut, ParBlocks,
    ParBlocksSizeUser, consts,
};

pub(super) type RoundKeys = [u128; 10];
type ParBlocksSize = consts::U3;

#[rustfmt::skip]
macro_rules! unroll_par {
    ($var:ident, $body:block) => {
        { let $var: usize = 0; $body; }
        { let $var: usize = 1; $body; }
        { let $var: usize = 2; $body; }
    };
}

#[inline(always)]
fn sub_bytes(block: u128, sbox: &[u8; 256]) -> u128 {
    u128::from_le_bytes(block.to_le_bytes().map(|v| sbox[v as usize]))
}

#[inline(always)]
fn transform(block: u128, table: &Table) -> u128 {
    let table: &[[u128; 256]; 16] = unsafe { &*(table.0.as_ptr().cast()) };
    let block = block.to_le_bytes();
    let mut res = 0u128;
    for i in 0..16 {
        res ^= table[i][block[i] as usize];
    }
    #[cfg(target_endian = "big")]
    let res = res.swap_bytes();
    res
}

pub(super) fn expand_enc_keys(key: &Key) -> RoundKeys {
    #[inline(always)]
    fn next_const(i: usize) -> u128 {
        u128::from_le_bytes(KEYGEN[i].0)
    }

    let mut enc_keys = [0; 10];

    let mut k1 = u128::from_le_bytes(key[..16].try_into().unwrap());
    let mut k2 = u128::from_le_bytes(key[16..].try_into().unwrap());

    enc_keys[0] = k1;
    enc_keys[1] = k2;

    let mut cidx = 0;
    for i in 1..5 {
        for _ in 0..4 {
            let mut t = k1 ^ next_const(cidx);
            cidx += 1;
            t = transform(t, &ENC_TABLE);
            k2 ^= t;

            let mut t = k2 ^ next_const(cidx);
            cidx += 1;
            t = transform(t, &ENC_TABLE);
            k1 ^= t;
        }

        enc_keys[2 * i] = k1;
        enc_keys[2 * i + 1] = k2;
    }

    enc_keys
}

pub(super) fn inv_enc_keys(enc_keys: &RoundKeys) -> RoundKeys {
    let mut dec_keys = [0; 10];

    dec_keys[0] = enc_keys[9];
    for i in 1..9 {
        let k = sub_bytes(enc_keys[i], &P);
        dec_keys[9 - i] = transform(k, &DEC_TABLE);
    }
    dec_keys[9] = enc_keys[0];

    dec_keys
}

pub(crate) struct EncBackend<'a>(pub(crate) &'a RoundKeys);

impl BlockSizeUser for EncBackend<'_> {
    type BlockSize = consts::U16;
}

impl ParBlocksSizeUser for EncBackend<'_> {
    type ParBlocksSize = ParBlocksSize;
}

impl BlockCipherEncBackend for EncBackend<'_> {
    #[inline]
    fn encrypt_block(&self, mut block: InOut<'_, '_, Block>) {
        let k = self.0;

        let mut b: u128 = u128::from_le_bytes(block.get_in().0);

        for i in 0..9 {
            b ^= k[i];
            b = transform(b, &ENC_TABLE);
        }
        b ^= k[9];

        *block.get_out() = Array(b.to_le_bytes());
    }

    #[inline]
    fn encrypt_par_blocks(&self, mut blocks: InOut<'_, '_, ParBlocks<Self>>) {
        let k = self.0;

        let mut bs = blocks.get_in().0.map(|b| u128::from_le_bytes(b.0));

        for i in 0..9 {
            unroll_par!(j, {
                bs[j] ^= k[i];
                bs[j] = transform(bs[j], &ENC_TABLE);
            });
        }

        let blocks_out = blocks.get_out();
        unroll_par!(i, {
            bs[i] ^= k[9];
            blocks_out[i].0 = u128::to_le_bytes(bs[i]);
        });
    }
}

pub(crate) struct DecBackend<'a>(pub(crate) &'a RoundKeys);

impl BlockSizeUser for DecBackend<'_> {
    type BlockSize = consts::U16;
}

impl ParBlocksSizeUser for DecBackend<'_> {
    type ParBlocksSize = consts::U1;
}

impl BlockCipherDecBackend for DecBackend<'_> {
    #[inline]
    fn decrypt_block(&self, mut block: InOut<'_, '_, Block>) {
        let k = self.0;

        let mut b: u128 = u128::from_le_bytes(block.get_in().0);

        b ^= k[0];
        b = sub_bytes(b, &P);
        b = transform(b, &DEC_TABLE);

        for i in 1..9 {
            b = transform(b, &DEC_TABLE);
            b ^= k[i];
        }
        b = sub_bytes(b, &P_INV);
        b ^= k[9];

        *block.get_out() = Array(b.to_le_bytes());
    }
}
