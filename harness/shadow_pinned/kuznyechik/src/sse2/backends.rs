#![allow(unsafe_op_in_unsafe_fn)]

use crate::{
    Block, Key,
    consts::{P, P_INV},
    fused_tables::{DEC_TABLE, ENC_TABLE, Table},
    utils::KEYGEN,
};
use cipher::{
    BlockCipherDecBackend, BlockCipherEncBackend, BlockSizeUser, ParBlocks, ParBlocksSizeUser,
    consts::{U4, U16},
    inout::InOut,
    typenum::Unsigned,
};

#[cfg(target_arch = "x86")]
use core::arch::x86::*;
#[cfg(target_arch = "x86_64")]
use core::arch::x86_64::*;

pub(super) type RoundKeys = [__m128i; 10];

type ParBlocksSize = U4;

#[rustfmt::skip]
macro_rules! unroll_par {
    ($var:ident, $body:block) => {
        { let $var: usize = 0; $body; }
        { let $var: usize = 1; $body; }
        { let $var: usize = 2; $body; }
        { let $var: usize = 3; $body; }
    };
}

#[inline(always)]
unsafe fn sub_bytes(block: __m128i, sbox: &[u8; 256]) -> __m128i {
    let t0 = _mm_extract_epi16(block, 0) as u16;
    let t1 = _mm_extract_epi16(block, 1) as u16;
    let t2 = _mm_extract_epi16(block, 2) as u16;
    let t3 = _mm_extract_epi16(block, 3) as u16;
    let t4 = _mm_extract_epi16(block, 4) as u16;
    let t5 = _mm_extract_epi16(block, 5) as u16;
    let t6 = _mm_extract_epi16(block, 6) as u16;
    let t7 = _mm_extract_epi16(block, 7) as u16;

    _mm_set_epi8(
        sbox[(t7 >> 8) as usize] as i8,
        sbox[(t7 & 0xFF) as usize] as i8,
        sbox[(t6 >> 8) as usize] as i8,
        sbox[(t6 & 0xFF) as usize] as i8,
        sbox[(t5 >> 8) as usize] as i8,
        sbox[(t5 & 0xFF) as usize] as i8,
        sbox[(t4 >> 8) as usize] as i8,
        sbox[(t4 & 0xFF) as usize] as i8,
        sbox[(t3 >> 8) as usize] as i8,
        sbox[(t3 & 0xFF) as usize] as i8,
        sbox[(t2 >> 8) as usize] as i8,
        sbox[(t2 & 0xFF) as usize] as i8,
        sbox[(t1 >> 8) as usize] as i8,
        sbox[(t1 & 0xFF) as usize] as i8,
        sbox[(t0 >> 8) as usize] as i8,
        sbox[(t0 & 0xFF) as usize] as i8,
    )
}

#[inline(always)]
unsafe fn transform(block: __m128i, table: &Table) -> __m128i {
    macro_rules! get {
        ($table:expr, $ind:expr, $i:expr) => {{
            let idx = _mm_extract_epi16($ind, $i) as u16 as usize;
            let p = $table.0.as_ptr().add(idx).cast();
            // correct alignment of `p` is guaranteed since offset values
            // are shifted by 4 bits left and the table is aligned to 16 bytes
            debug_assert_eq!(p as usize % 16, 0);
            _mm_load_si128(p)
        }};
    }

    macro_rules! xor_get {
        ($val:expr, $table:expr, $ind:expr, $i:expr) => {
            $val = _mm_xor_si128($val, get!($table, $ind, $i));
        };
    }

    let ind = _mm_set_epi64x(0x0f0e0d0c0b0a0908, 0x0706050403020100);

    let lind = _mm_slli_epi16(_mm_unpacklo_epi8(block, ind), 4);

    let mut lt = get!(table, lind, 0);
    xor_get!(lt, table, lind, 1);
    xor_get!(lt, table, lind, 2);
    xor_get!(lt, table, lind, 3);
    xor_get!(lt, table, lind, 4);
    xor_get!(lt, table, lind, 5);
    xor_get!(lt, table, lind, 6);
    xor_get!(lt, table, lind, 7);

    let rind = _mm_slli_epi16(_mm_unpackhi_epi8(block, ind), 4);

    let mut rt = get!(table, rind, 0);
    xor_get!(rt, table, rind, 1);
    xor_get!(rt, table, rind, 2);
    xor_get!(rt, table, rind, 3);
    xor_get!(rt, table, rind, 4);
    xor_get!(rt, table, rind, 5);
    xor_get!(rt, table, rind, 6);
    xor_get!(rt, table, rind, 7);

    _mm_xor_si128(lt, rt)
}

pub(super) fn expand_enc_keys(key: &Key) -> RoundKeys {
    macro_rules! next_const {
        ($i:expr) => {{
            let p = KEYGEN.as_ptr() as *const __m128i;
            // correct alignment of `p` is guaranteed since the table
            // is aligned to 16 bytes
            let p = p.add($i);
            debug_assert_eq!(p as usize % 16, 0);
            $i += 1;
            _mm_load_si128(p)
        }};
    }

    unsafe {
        let mut enc_keys = [_mm_setzero_si128(); 10];

        let pk: *const __m128i = key.as_ptr() as *const __m128i;
        let mut k1 = _mm_loadu_si128(pk);
        let mut k2 = _mm_loadu_si128(pk.add(1));
        enc_keys[0] = k1;
        enc_keys[1] = k2;

        let mut cidx = 0;
        for i in 1..5 {
            for _ in 0..4 {
                let mut t = _mm_xor_si128(k1, next_const!(cidx));
                t = transform(t, &ENC_TABLE);
                k2 = _mm_xor_si128(k2, t);

                let mut t = _mm_xor_si128(k2, next_const!(cidx));
                t = transform(t, &ENC_TABLE);
                k1 = _mm_xor_si128(k1, t);
            }

            enc_keys[2 * i] = k1;
            enc_keys[2 * i + 1] = k2;
        }

        enc_keys
    }
}

pub(super) fn inv_enc_keys(enc_keys: &RoundKeys) -> RoundKeys {
    unsafe {
        let mut dec_keys = [_mm_setzero_si128(); 10];

        dec_keys[0] = enc_keys[9];
        for i in 1..9 {
            let k = sub_bytes(enc_keys[i], &P);
            dec_keys[9 - i] = transform(k, &DEC_TABLE);
        }
        dec_keys[9] = enc_keys[0];

        dec_keys
    }
}

pub(crate) struct EncBackend<'a>(pub(crate) &'a RoundKeys);

impl BlockSizeUser for EncBackend<'_> {
    type BlockSize = U16;
}

impl ParBlocksSizeUser for EncBackend<'_> {
    type ParBlocksSize = ParBlocksSize;
}

impl BlockCipherEncBackend for EncBackend<'_> {
    #[inline]
    fn encrypt_block(&self, block: InOut<'_, '_, Block>) {
        let k = self.0;
        unsafe {
            let (in_ptr, out_ptr) = block.into_raw();
            let mut b = _mm_loadu_si128(in_ptr as *const __m128i);

            for i in 0..9 {
                b = _mm_xor_si128(b, k[i]);
                b = transform(b, &ENC_TABLE);
            }
            b = _mm_xor_si128(b, k[9]);
            _mm_storeu_si128(out_ptr as *mut __m128i, b);
        }
    }

    #[inline]
    fn encrypt_par_blocks(&self, blocks: InOut<'_, '_, ParBlocks<Self>>) {
        let k = self.0;
        unsafe {
            let (in_ptr, out_ptr) = blocks.into_raw();
            let in_ptr = in_ptr as *mut __m128i;
            let out_ptr = out_ptr as *mut __m128i;

            let mut blocks = [_mm_setzero_si128(); ParBlocksSize::USIZE];
            unroll_par! {
                i, {
                    blocks[i] = _mm_loadu_si128(in_ptr.add(i));
                }
            };

            for i in 0..9 {
                unroll_par!(j, {
                    let t = _mm_xor_si128(blocks[j], k[i]);
                    blocks[j] = transform(t, &ENC_TABLE);
                });
            }

            unroll_par! {
                i, {
                    let t = _mm_xor_si128(blocks[i], k[9]);
                    _mm_storeu_si128(out_ptr.add(i), t);
                }
            };
        }
    }
}

pub(crate) struct DecBackend<'a>(pub(crate) &'a RoundKeys);

impl BlockSizeUser for DecBackend<'_> {
    type BlockSize = U16;
}

impl ParBlocksSizeUser for DecBackend<'_> {
    type ParBlocksSize = ParBlocksSize;
}

impl BlockCipherDecBackend for DecBackend<'_> {
    #[inline]
    fn decrypt_block(&self, block: InOut<'_, '_, Block>) {
        let k = self.0;
        unsafe {
            let (in_ptr, out_ptr) = block.into_raw();
            let mut b = _mm_loadu_si128(in_ptr as *const __m128i);

            b = _mm_xor_si128(b, k[0]);

            b = sub_bytes(b, &P);
            b = transform(b, &DEC_TABLE);

            for i in 1..9 {
                b = transform(b, &DEC_TABLE);
                b = _mm_xor_si128(b, k[i]);
            }
            b = sub_bytes(b, &P_INV);
            b = _mm_xor_si128(b, k[9]);

            _mm_storeu_si128(out_ptr as *mut __m128i, b)
        }
    }

    #[inline]
    fn decrypt_par_blocks(&self, blocks: InOut<'_, '_, ParBlocks<Self>>) {
        let k = self.0;
        unsafe {
            let (in_ptr, out_ptr) = blocks.into_raw();
            let in_ptr = in_ptr as *mut __m128i;
            let out_ptr = out_ptr as *mut __m128i;

            let mut blocks = [_mm_setzero_si128(); ParBlocksSize::USIZE];
            unroll_par! {
                i, {
                    blocks[i] = _mm_loadu_si128(in_ptr.add(i));
                }
            };

            unroll_par! {
                i, {
                    let t = _mm_xor_si128(blocks[i], k[0]);
                    let t = sub_bytes(t, &P);
                    blocks[i] = transform(t, &DEC_TABLE);
                }
            }

            for i in 1..9 {
                unroll_par! {
                    j, {
                        let t = transform(blocks[j], &DEC_TABLE);
                        blocks[j] = _mm_xor_si128(t, k[i]);
                    }
                }
            }

            unroll_par! {
                i, {
                    let t = sub_bytes(blocks[i], &P_INV);
                    let t2 = _mm_xor_si128(t, k[9]);
                    _mm_storeu_si128(out_ptr.add(i), t2)
                }
            }
        }
    }
}
