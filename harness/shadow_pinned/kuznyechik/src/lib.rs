//! Pure Rust implementation of the [Kuznyechik] ([GOST R 34.12-2015]) block cipher.
//!
//! # ⚠️ Security Warning: Hazmat!
//!
//! This crate implements only the low-level block cipher function, and is intended
//! for use for implementing higher-level constructions *only*. It is NOT
//! intended for direct use in applications.
//!
//! USE AT YOUR OWN RISK!
//!
//! # Configuration Flags
//!
//! You can modify crate using the `kuznyechik_backend` configuration flag.
//! It accepts the following values
//!
//! - `soft`: use software backend with big fused tables.
//! - `compact_soft`: use software backend with small tables and slower performance.
//!
//! The flag can be enabled using `RUSTFLAGS` environmental variable
//! (e.g. `RUSTFLAGS='--cfg kuznyechik_backend="soft"'`) or by modifying
//! `.cargo/config`.
//!
//! [Kuznyechik]: https://en.wikipedia.org/wiki/Kuznyechik
//! [GOST R 34.12-2015]: https://tc26.ru/standard/gost/GOST_R_3412-2015.pdf
#![no_std]
#![doc(
    html_logo_url = "https://raw.githubusercontent.com/RustCrypto/media/26acc39f/logo.svg",
    html_favicon_url = "https://raw.githubusercontent.com/RustCrypto/media/26acc39f/logo.svg"
)]
#![cfg_attr(docsrs, feature(doc_auto_cfg))]
#![warn(missing_docs, rust_2018_idioms)]
#![allow(clippy::needless_range_loop, clippy::transmute_ptr_to_ptr)]

pub use cipher;
use cipher::{
    AlgorithmName, BlockSizeUser, KeyInit, KeySizeUser,
    array::Array,
    consts::{U16, U32},
};
use core::fmt;

#[cfg(feature = "zeroize")]
use cipher::zeroize::{ZeroizeOnDrop, zeroize_flat_type};

mod consts;
pub(crate) mod gft;
pub(crate) mod utils;

cfg_if::cfg_if!(
    if #[cfg(all(
        any(target_arch = "x86_64", target_arch = "x86"),
        target_feature = "sse2",
        not(any(kuznyechik_backend = "soft", kuznyechik_backend = "compact_soft")),
    ))] {
        mod fused_tables;
        mod sse2;
        use sse2 as imp;
    } else if #[cfg(all(
        target_arch = "aarch64",
        target_feature = "neon",
        not(any(kuznyechik_backend = "soft", kuznyechik_backend = "compact_soft")),
    ))] {
        mod fused_tables;
        mod neon;
        use neon as imp;
    } else if #[cfg(kuznyechik_backend = "compact_soft")] {
        mod compact_soft;
        use compact_soft as imp;
    } else {
        mod fused_tables;
        mod big_soft;
        use big_soft as imp;
    }
);

use imp::{DecKeys, EncDecKeys, EncKeys};

type BlockSize = U16;
type KeySize = U32;

/// 128-bit Kuznyechik block
pub type Block = Array<u8, U16>;
/// 256-bit Kuznyechik key
pub type Key = Array<u8, U32>;

/// Kuznyechik (GOST R 34.12-2015) block cipher
#[derive(Clone)]
pub struct Kuznyechik {
    keys: EncDecKeys,
}

impl KeySizeUser for Kuznyechik {
    type KeySize = KeySize;
}

impl BlockSizeUser for Kuznyechik {
    type BlockSize = BlockSize;
}

impl KeyInit for Kuznyechik {
    fn new(key: &Key) -> Self {
        let enc_keys = EncKeys::new(key);
        let keys = enc_keys.into();
        Self { keys }
    }
}

impl From<KuznyechikEnc> for Kuznyechik {
    #[inline]
    fn from(enc: KuznyechikEnc) -> Kuznyechik {
        let keys = enc.keys.clone().into();
        Self { keys }
    }
}

impl From<&KuznyechikEnc> for Kuznyechik {
    #[inline]
    fn from(enc: &KuznyechikEnc) -> Kuznyechik {
        let keys = enc.keys.clone().into();
        Self { keys }
    }
}

impl fmt::Debug for Kuznyechik {
    fn fmt(&self, f: &mut fmt::Formatter<'_>) -> Result<(), fmt::Error> {
        f.write_str("Kuznyechik { ... }")
    }
}

impl AlgorithmName for Kuznyechik {
    fn write_alg_name(f: &mut fmt::Formatter<'_>) -> fmt::Result {
        f.write_str("Kuznyechik")
    }
}

impl Drop for Kuznyechik {
    fn drop(&mut self) {
        #[cfg(feature = "zeroize")]
        unsafe {
            cipher::zeroize::zeroize_flat_type(self)
        }
    }
}

#[cfg(feature = "zeroize")]
impl ZeroizeOnDrop for Kuznyechik {}

/// Kuznyechik (GOST R 34.12-2015) block cipher (encrypt-only)
#[derive(Clone)]
pub struct KuznyechikEnc {
    keys: EncKeys,
}

impl KeySizeUser for KuznyechikEnc {
    type KeySize = KeySize;
}

impl BlockSizeUser for KuznyechikEnc {
    type BlockSize = BlockSize;
}

impl KeyInit for KuznyechikEnc {
    fn new(key: &Key) -> Self {
        let keys = EncKeys::new(key);
        Self { keys }
    }
}

impl fmt::Debug for KuznyechikEnc {
    fn fmt(&self, f: &mut fmt::Formatter<'_>) -> Result<(), fmt::Error> {
        f.write_str("KuznyechikEnc { ... }")
    }
}

impl AlgorithmName for KuznyechikEnc {
    fn write_alg_name(f: &mut fmt::Formatter<'_>) -> fmt::Result {
        f.write_str("Kuznyechik")
    }
}

impl Drop for KuznyechikEnc {
    fn drop(&mut self) {
        #[cfg(feature = "zeroize")]
        unsafe {
            cipher::zeroize::zeroize_flat_type(self)
        }
    }
}

#[cfg(feature = "zeroize")]
impl ZeroizeOnDrop for KuznyechikEnc {}

/// Kuznyechik (GOST R 34.12-2015) block cipher (decrypt-only)
#[derive(Clone)]
pub struct KuznyechikDec {
    keys: DecKeys,
}

impl KeySizeUser for KuznyechikDec {
    type KeySize = KeySize;
}

impl BlockSizeUser for KuznyechikDec {
    type BlockSize = BlockSize;
}

impl KeyInit for KuznyechikDec {
    fn new(key: &Key) -> Self {
        let enc_keys = EncKeys::new(key);
        let keys = enc_keys.into();
        Self { keys }
    }
}

impl From<KuznyechikEnc> for KuznyechikDec {
    #[inline]
    fn from(enc: KuznyechikEnc) -> KuznyechikDec {
        let keys = enc.keys.clone().into();
        Self { keys }
    }
}

impl From<&KuznyechikEnc> for KuznyechikDec {
    #[inline]
    fn from(enc: &KuznyechikEnc) -> KuznyechikDec {
        let keys = enc.keys.clone().into();
        Self { keys }
    }
}

impl fmt::Debug for KuznyechikDec {
    fn fmt(&self, f: &mut fmt::Formatter<'_>) -> Result<(), fmt::Error> {
        f.write_str("KuznyechikDec { ... }")
    }
}

impl AlgorithmName for KuznyechikDec {
    fn write_alg_name(f: &mut fmt::Formatter<'_>) -> fmt::Result {
        f.write_str("Kuznyechik")
    }
}

impl Drop for KuznyechikDec {
    fn drop(&mut self) {
        #[cfg(feature = "zeroize")]
        unsafe {
            zeroize_flat_type(self)
        }
    }
}

#[cfg(feature = "zeroize")]
impl ZeroizeOnDrop for KuznyechikDec {}
