//! Minimal miri support.
//!
//! Miri is an interpreter, and though it tries to emulate the target CPU
//! it does not support any target features.

#[macro_export]
#[doc(hidden)]
macro_rules! __unless_target_features {
    ($($tf:tt),+ => $body:expr ) => {
        false
    };
}

#[macro_export]
#[doc(hidden)]
macro_rules! __detect_target_features {
    ($($tf:tt),+) => {
        false
    };
}
