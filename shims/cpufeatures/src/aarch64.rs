//! ARM64 CPU feature detection support.
//!
//! Unfortunately ARM instructions to detect CPU features cannot be called from
//! unprivileged userspace code, so this implementation relies on OS-specific
//! APIs for feature detection.

// Evaluate the given `$body` expression any of the supplied target features
// are not enabled. Otherwise returns true.
#[macro_export]
#[doc(hidden)]
macro_rules! __unless_target_features {
    ($($tf:tt),+ => $body:expr ) => {
        {
            #[cfg(not(all($(target_feature=$tf,)*)))]
            $body

            #[cfg(all($(target_feature=$tf,)*))]
            true
        }
    };
}

// Linux runtime detection of target CPU features using `getauxval`.
#[cfg(any(target_os = "linux", target_os = "android"))]
#[macro_export]
#[doc(hidden)]
macro_rules! __detect_target_features {
    ($($tf:tt),+) => {{
        let hwcaps = $crate::aarch64::getauxval_hwcap();
        $($crate::check!(hwcaps, $tf) & )+ true
    }};
}

/// Linux helper function for calling `getauxval` to get `AT_HWCAP`.
#[cfg(any(target_os = "linux", target_os = "android"))]
pub fn getauxval_hwcap() -> u64 {
    unsafe { libc::getauxval(libc::AT_HWCAP) }
}

// Apple platform's runtime detection of target CPU features using `sysctlbyname`.
#[cfg(target_vendor = "apple")]
#[macro_export]
#[doc(hidden)]
macro_rules! __detect_target_features {
    ($($tf:tt),+) => {{
        $($crate::check!($tf) & )+ true
    }};
}

// Linux `expand_check_macro`
#[cfg(any(target_os = "linux", target_os = "android"))]
macro_rules! __expand_check_macro {
    ($(($name:tt, $hwcap:ident)),* $(,)?) => {
        #[macro_export]
        #[doc(hidden)]
        macro_rules! check {
            $(
                ($hwcaps:expr, $name) => {
                    (($hwcaps & $crate::aarch64::hwcaps::$hwcap) != 0)
                };
            )*
        }
    };
}

// Linux `expand_check_macro`
#[cfg(any(target_os = "linux", target_os = "android"))]
__expand_check_macro! {
    ("aes",    AES),    // Enable AES support.
    ("dit",    DIT),    // Enable DIT support.
    ("sha2",   SHA2),   // Enable SHA1 and SHA256 support.
    ("sha3",   SHA3),   // Enable SHA512 and SHA3 support.
    ("sm4",    SM4),    // Enable SM3 and SM4 support.
}

/// Linux hardware capabilities mapped to target features.
///
/// Note that LLVM target features are coarser grained than what Linux supports
/// and imply more capabilities under each feature. This module attempts to
/// provide that mapping accordingly.
///
/// See this issue for more info: <https://github.com/RustCrypto/utils/issues/395>
#[cfg(any(target_os = "linux", target_os = "android"))]
pub mod hwcaps {
    use libc::c_ulong;

    pub const AES: c_ulong = libc::HWCAP_AES | libc::HWCAP_PMULL;
    pub const DIT: c_ulong = libc::HWCAP_DIT;
    pub const SHA2: c_ulong = libc::HWCAP_SHA2;
    pub const SHA3: c_ulong = libc::HWCAP_SHA3 | libc::HWCAP_SHA512;
    pub const SM4: c_ulong = libc::HWCAP_SM3 | libc::HWCAP_SM4;
}

// Apple OS (macOS, iOS, watchOS, and tvOS) `check!` macro.
//
// NOTE: several of these instructions (e.g. `aes`, `sha2`) can be assumed to
// be present on all Apple ARM64 hardware.
//
// Newer CPU instructions now have nodes within sysctl's `hw.optional`
// namespace, however the ones that do not can safely be assumed to be
// present on all Apple ARM64 devices, now and for the foreseeable future.
//
// See discussion on this issue for more information:
// <https://github.com/RustCrypto/utils/issues/378>
#[cfg(target_vendor = "apple")]
#[macro_export]
#[doc(hidden)]
macro_rules! check {
    ("aes") => {
        true
    };
    ("dit") => {
        // https://developer.apple.com/documentation/xcode/writing-arm64-code-for-apple-platforms#Enable-DIT-for-constant-time-cryptographic-operations
        unsafe {
            $crate::aarch64::sysctlbyname(b"hw.optional.arm.FEAT_DIT\0")
        }
    };
    ("sha2") => {
        true
    };
    ("sha3") => {
        unsafe {
            // `sha3` target feature implies SHA-512 as well
            $crate::aarch64::sysctlbyname(b"hw.optional.armv8_2_sha512\0")
                && $crate::aarch64::sysctlbyname(b"hw.optional.armv8_2_sha3\0")
        }
    };
    ("sm4") => {
        false
    };
}

/// Apple helper function for calling `sysctlbyname`.
#[cfg(target_vendor = "apple")]
pub unsafe fn sysctlbyname(name: &[u8]) -> bool {
    assert_eq!(
        name.last().cloned(),
        Some(0),
        "name is not NUL terminated: {:?}",
        name
    );

    let mut value: u32 = 0;
    let mut size = core::mem::size_of::<u32>();

    let rc = libc::sysctlbyname(
        name.as_ptr() as *const i8,
        &mut value as *mut _ as *mut libc::c_void,
        &mut size,
        core::ptr::null_mut(),
        0,
    );

    assert_eq!(size, 4, "unexpected sysctlbyname(3) result size");
    assert_eq!(rc, 0, "sysctlbyname returned error code: {}", rc);
    value != 0
}

// On other targets, runtime CPU feature detection is unavailable
#[cfg(not(any(target_vendor = "apple", target_os = "linux", target_os = "android",)))]
#[macro_export]
#[doc(hidden)]
macro_rules! __detect_target_features {
    ($($tf:tt),+) => {
        false
    };
}
