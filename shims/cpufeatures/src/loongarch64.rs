//! LoongArch64 CPU feature detection support.
//!
//! This implementation relies on OS-specific APIs for feature detection.

// Evaluate the given `$body` expression any of the supplied target features
// are not enabled. Otherwise returns true.
#[macro_export]
#[doc(hidden)]
macro_rules! __unless_target_features {
    ($($tf:tt),+ => $body:expr ) => {
        {
            #[cfg(not(all($(target_feature=$tf,)*)))]
            $body

            #[cfg(all($(target_feature=$tf,)*))]
            true
        }
    };
}

// Linux runtime detection of target CPU features using `getauxval`.
#[cfg(target_os = "linux")]
#[macro_export]
#[doc(hidden)]
macro_rules! __detect_target_features {
    ($($tf:tt),+) => {{
        let hwcaps = $crate::loongarch64::getauxval_hwcap();
        $($crate::check!(hwcaps, $tf) & )+ true
    }};
}

/// Linux helper function for calling `getauxval` to get `AT_HWCAP`.
#[cfg(target_os = "linux")]
pub fn getauxval_hwcap() -> u64 {
    unsafe { libc::getauxval(libc::AT_HWCAP) }
}

// Linux `expand_check_macro`
#[cfg(target_os = "linux")]
macro_rules! __expand_check_macro {
    ($(($name:tt, $hwcap:ident)),* $(,)?) => {
        #[macro_export]
        #[doc(hidden)]
        macro_rules! check {
            $(
                ($hwcaps:expr, $name) => {
                    (($hwcaps & $crate::loongarch64::hwcaps::$hwcap) != 0)
                };
            )*
        }
    };
}

// Linux `expand_check_macro`
#[cfg(target_os = "linux")]
__expand_check_macro! {
    ("cpucfg",   CPUCFG),   // Enable CPUCFG support.
    ("lam",      LAM),      // Enable LAM support.
    ("ual",      UAL),      // Enable UAL support.
    ("fpu",      FPU),      // Enable FPU support.
    ("lsx",      LSX),      // Enable LSX support.
    ("lasx",     LASX),     // Enable LASX support.
    ("crc32",    CRC32),    // Enable CRC32 support.
    ("complex",  COMPLEX),  // Enable COMPLEX support.
    ("crypto",   CRYPTO),   // Enable CRYPTO support.
    ("lvz",      LVZ),      // Enable LVZ support.
    ("lbt.x86",  LBT_X86),  // Enable LBT_X86 support.
    ("lbt.arm",  LBT_ARM),  // Enable LBT_ARM support.
    ("lbt.mips", LBT_MIPS), // Enable LBT_MIPS support.
    ("ptw",      PTW),      // Enable PTW support.
}

/// Linux hardware capabilities mapped to target features.
///
/// Note that LLVM target features are coarser grained than what Linux supports
/// and imply more capabilities under each feature. This module attempts to
/// provide that mapping accordingly.
#[cfg(target_os = "linux")]
pub mod hwcaps {
    use libc::c_ulong;

    pub const CPUCFG: c_ulong = libc::HWCAP_LOONGARCH_CPUCFG;
    pub const LAM: c_ulong = libc::HWCAP_LOONGARCH_LAM;
    pub const UAL: c_ulong = libc::HWCAP_LOONGARCH_UAL;
    pub const FPU: c_ulong = libc::HWCAP_LOONGARCH_FPU;
    pub const LSX: c_ulong = libc::HWCAP_LOONGARCH_LSX;
    pub const LASX: c_ulong = libc::HWCAP_LOONGARCH_LASX;
    pub const CRC32: c_ulong = libc::HWCAP_LOONGARCH_CRC32;
    pub const COMPLEX: c_ulong = libc::HWCAP_LOONGARCH_COMPLEX;
    pub const CRYPTO: c_ulong = libc::HWCAP_LOONGARCH_CRYPTO;
    pub const LVZ: c_ulong = libc::HWCAP_LOONGARCH_LVZ;
    pub const LBT_X86: c_ulong = libc::HWCAP_LOONGARCH_LBT_X86;
    pub const LBT_ARM: c_ulong = libc::HWCAP_LOONGARCH_LBT_ARM;
    pub const LBT_MIPS: c_ulong = libc::HWCAP_LOONGARCH_LBT_MIPS;
    pub const PTW: c_ulong = libc::HWCAP_LOONGARCH_PTW;
}

// On other targets, runtime CPU feature detection is unavailable
#[cfg(not(target_os = "linux"))]
#[macro_export]
#[doc(hidden)]
macro_rules! __detect_target_features {
    ($($tf:tt),+) => {
        false
    };
}
