//! This crate provides macros for runtime CPU feature detection. It's intended
//! as a stopgap until Rust [RFC 2725] adding first-class target feature detection
//! macros to `libcore` is implemented.
//!
//! # Supported target architectures
//!
//! *NOTE: target features with an asterisk are unstable (nightly-only) and
//! subject to change to match upstream name changes in the Rust standard
//! library.
//!
//! ## `aarch64`
//!
//! Linux, iOS, and macOS/ARM only (ARM64 does not support OS-independent feature detection)
//!
//! Target features:
//!
//! - `aes`*
//! - `sha2`*
//! - `sha3`*
//!
//! Linux only
//!
//! - `sm4`*
//!
//! ## `loongarch64`
//!
//! Linux only (LoongArch64 does not support OS-independent feature detection)
//!
//! Target features:
//!
//! - `lam`*
//! - `ual`*
//! - `fpu`*
//! - `lsx`*
//! - `lasx`*
//! - `crc32`*
//! - `complex`*
//! - `crypto`*
//! - `lvz`*
//! - `lbt.x86`*
//! - `lbt.arm`*
//! - `lbt.mips`*
//! - `ptw`*
//!
//! ## `x86`/`x86_64`
//!
//! OS independent and `no_std`-friendly
//!
//! Target features:
//!
//! - `adx`
//! - `aes`
//! - `avx`
//! - `avx2`
//! - `avx512bw`*
//! - `avx512cd`*
//! - `avx512dq`*
//! - `avx512er`*
//! - `avx512f`*
//! - `avx512ifma`*
//! - `avx512pf`*
//! - `avx512vl`*
//! - `bmi1`
//! - `bmi2`
//! - `fma`,
//! - `mmx`
//! - `pclmulqdq`
//! - `popcnt`
//! - `rdrand`
//! - `rdseed`
//! - `sgx`
//! - `sha`
//! - `sse`
//! - `sse2`
//! - `sse3`
//! - `sse4.1`
//! - `sse4.2`
//! - `ssse3`
//!
//! If you would like detection support for a target feature which is not on
//! this list, please [open a GitHub issue][gh].
//!
//! # Example
//! ```
//! # #[cfg(any(target_arch = "x86", target_arch = "x86_64"))]
//! # {
//! // This macro creates `cpuid_aes_sha` module
//! cpufeatures::new!(cpuid_aes_sha, "aes", "sha");
//!
//! // `token` is a Zero Sized Type (ZST) value, which guarantees
//! // that underlying static storage got properly initialized,
//! // which allows to omit initialization branch
//! let token: cpuid_aes_sha::InitToken = cpuid_aes_sha::init();
//!
//! if token.get() {
//!     println!("CPU supports both SHA and AES extensions");
//! } else {
//!     println!("SHA and AES extensions are not supported");
//! }
//!
//! // If stored value needed only once you can get stored value
//! // omitting the token
//! let val = cpuid_aes_sha::get();
//! assert_eq!(val, token.get());
//!
//! // Additionally you can get both token and value
//! let (token, val) = cpuid_aes_sha::init_get();
//! assert_eq!(val, token.get());
//! # }
//! ```
//!
//! Note that if all tested target features are enabled via compiler options
//! (e.g. by using `RUSTFLAGS`), the `get` method will always return `true`
//! and `init` will not use CPUID instruction. Such behavior allows
//! compiler to completely eliminate fallback code.
//!
//! After first call macro caches result and returns it in subsequent
//! calls, thus runtime overhead for them is minimal.
//!
//! [RFC 2725]: https://github.com/rust-lang/rfcs/pull/2725
//! [gh]: https://github.com/RustCrypto/utils/issues/new?title=cpufeatures:%20requesting%20support%20for%20CHANGEME%20target%20feature

#![no_std]
#![doc(
    html_logo_url = "https://raw.githubusercontent.com/RustCrypto/media/6ee8e381/logo.svg",
    html_favicon_url = "https://raw.githubusercontent.com/RustCrypto/media/6ee8e381/logo.svg"
)]

/// /verif shim: when set, every run-time feature detection reports "absent".
pub static VERIF_FORCE_OFF: core::sync::atomic::AtomicBool = core::sync::atomic::AtomicBool::new(false);

#[cfg(not(miri))]
#[cfg(target_arch = "aarch64")]
#[doc(hidden)]
pub mod aarch64;

#[cfg(not(miri))]
#[cfg(target_arch = "loongarch64")]
#[doc(hidden)]
pub mod loongarch64;

#[cfg(not(miri))]
#[cfg(any(target_arch = "x86", target_arch = "x86_64"))]
mod x86;

#[cfg(miri)]
mod miri;

#[cfg(not(any(
    target_arch = "aarch64",
    target_arch = "loongarch64",
    target_arch = "x86",
    target_arch = "x86_64"
)))]
compile_error!("This crate works only on `aarch64`, `loongarch64`, `x86`, and `x86-64` targets.");

/// Create module with CPU feature detection code.
#[macro_export]
macro_rules! new {
    ($mod_name:ident, $($tf:tt),+ $(,)?) => {
        mod $mod_name {
            use core::sync::atomic::{AtomicU8, Ordering::Relaxed};

            const UNINIT: u8 = u8::max_value();
            static STORAGE: AtomicU8 = AtomicU8::new(UNINIT);

            /// Initialization token
            #[derive(Copy, Clone, Debug)]
            pub struct InitToken(());

            impl InitToken {
                /// Get initialized value
                #[inline(always)]
                pub fn get(&self) -> bool {
                    $crate::__unless_target_features! {
                        $($tf),+ => {
                            STORAGE.load(Relaxed) == 1
                        }
                    }
                }
            }

            /// Get stored value and initialization token,
            /// initializing underlying storage if needed.
            #[inline]
            pub fn init_get() -> (InitToken, bool) {
                let res = $crate::__unless_target_features! {
                    $($tf),+ => {
                        #[cold]
                        fn init_inner() -> bool {
                            let res = $crate::__detect_target_features!($($tf),+);
                            STORAGE.store(res as u8, Relaxed);
                            res
                        }

                        // Relaxed ordering is fine, as we only have a single atomic variable.
                        let val = STORAGE.load(Relaxed);

                        if val == UNINIT {
                            init_inner()
                        } else {
                            val == 1
                        }
                    }
                };

                (InitToken(()), res)
            }

            /// Initialize underlying storage if needed and get initialization token.
            #[inline]
            pub fn init() -> InitToken {
                init_get().0
            }

            /// Initialize underlying storage if needed and get stored value.
            #[inline]
            pub fn get() -> bool {
                init_get().1
            }
        }
    };
}
