//! x86/x86-64 CPU feature detection support.
//!
//! Portable, `no_std`-friendly implementation that relies on the x86 `CPUID`
//! instruction for feature detection.

/// Evaluate the given `$body` expression any of the supplied target features
/// are not enabled. Otherwise returns true.
///
/// The `$body` expression is not evaluated on SGX targets, and returns false
/// on these targets unless *all* supplied target features are enabled.
#[macro_export]
#[doc(hidden)]
macro_rules! __unless_target_features {
    ($($tf:tt),+ => $body:expr ) => {{
        #[cfg(not(all($(target_feature=$tf,)*)))]
        {
            #[cfg(not(any(target_env = "sgx", target_os = "none", target_os = "uefi")))]
            $body

            // CPUID is not available on SGX. Freestanding and UEFI targets
            // do not support SIMD features with default compilation flags.
            #[cfg(any(target_env = "sgx", target_os = "none", target_os = "uefi"))]
            false
        }

        #[cfg(all($(target_feature=$tf,)*))]
        true
    }};
}

/// Use CPUID to detect the presence of all supplied target features.
#[macro_export]
#[doc(hidden)]
macro_rules! __detect_target_features {
    ($($tf:tt),+) => {{
        #[cfg(target_arch = "x86")]
        use core::arch::x86::{__cpuid, __cpuid_count, CpuidResult};
        #[cfg(target_arch = "x86_64")]
        use core::arch::x86_64::{__cpuid, __cpuid_count, CpuidResult};

        // These wrappers are workarounds around
        // https://github.com/rust-lang/rust/issues/101346
        //
        // DO NOT remove it until MSRV is bumped to a version
        // with the issue fix (at least 1.64).
        #[inline(never)]
        unsafe fn cpuid(leaf: u32) -> CpuidResult {
            __cpuid(leaf)
        }

        #[inline(never)]
        unsafe fn cpuid_count(leaf: u32, sub_leaf: u32) -> CpuidResult {
            __cpuid_count(leaf, sub_leaf)
        }

        let cr = unsafe {
            [cpuid(1), cpuid_count(7, 0)]
        };

        // /verif shim: detection can be forced off (the only change to cpufeatures 0.2.17)
        (!$crate::VERIF_FORCE_OFF.load(core::sync::atomic::Ordering::Relaxed)) & $($crate::check!(cr, $tf) & )+ true
    }};
}

/// Check that OS supports required SIMD registers
#[macro_export]
#[doc(hidden)]
macro_rules! __xgetbv {
    ($cr:expr, $mask:expr) => {{
        #[cfg(target_arch = "x86")]
        use core::arch::x86 as arch;
        #[cfg(target_arch = "x86_64")]
        use core::arch::x86_64 as arch;

        // Check bits 26 and 27
        let xmask = 0b11 << 26;
        let xsave = $cr[0].ecx & xmask == xmask;
        if xsave {
            let xcr0 = unsafe { arch::_xgetbv(arch::_XCR_XFEATURE_ENABLED_MASK) };
            (xcr0 & $mask) == $mask
        } else {
            false
        }
    }};
}

macro_rules! __expand_check_macro {
    ($(($name:tt, $reg_cap:tt $(, $i:expr, $reg:ident, $offset:expr)*)),* $(,)?) => {
        #[macro_export]
        #[doc(hidden)]
        macro_rules! check {
            $(
                ($cr:expr, $name) => {{
                    // Register bits are listed here:
                    // https://wiki.osdev.org/CPU_Registers_x86#Extended_Control_Registers
                    let reg_cap = match $reg_cap {
                        // Bit 1
                        "xmm" => $crate::__xgetbv!($cr, 0b10),
                        // Bits 1 and 2
                        "ymm" => $crate::__xgetbv!($cr, 0b110),
                        // Bits 1, 2, 5, 6, and 7
                        "zmm" => $crate::__xgetbv!($cr, 0b1110_0110),
                        _ => true,
                    };
                    reg_cap
                    $(
                        & ($cr[$i].$reg & (1 << $offset) != 0)
                    )*
                }};
            )*
        }
    };
}

__expand_check_macro! {
    ("sse3", "", 0, ecx, 0),
    ("pclmulqdq", "", 0, ecx, 1),
    ("ssse3", "", 0, ecx, 9),
    ("fma", "ymm", 0, ecx, 12, 0, ecx, 28),
    ("sse4.1", "", 0, ecx, 19),
    ("sse4.2", "", 0, ecx, 20),
    ("popcnt", "", 0, ecx, 23),
    ("aes", "", 0, ecx, 25),
    ("avx", "xmm", 0, ecx, 28),
    ("rdrand", "", 0, ecx, 30),

    ("mmx", "", 0, edx, 23),
    ("sse", "", 0, edx, 25),
    ("sse2", "", 0, edx, 26),

    ("sgx", "", 1, ebx, 2),
    ("bmi1", "", 1, ebx, 3),
    ("bmi2", "", 1, ebx, 8),
    ("avx2", "ymm", 1, ebx, 5, 0, ecx, 28),
    ("avx512f", "zmm", 1, ebx, 16),
    ("avx512dq", "zmm", 1, ebx, 17),
    ("rdseed", "", 1, ebx, 18),
    ("adx", "", 1, ebx, 19),
    ("avx512ifma", "zmm", 1, ebx, 21),
    ("avx512pf", "zmm", 1, ebx, 26),
    ("avx512er", "zmm", 1, ebx, 27),
    ("avx512cd", "zmm", 1, ebx, 28),
    ("sha", "", 1, ebx, 29),
    ("avx512bw", "zmm", 1, ebx, 30),
    ("avx512vl", "zmm", 1, ebx, 31),
    ("avx512vbmi", "zmm", 1, ecx, 1),
    ("avx512vbmi2", "zmm", 1, ecx, 6),
    ("gfni", "zmm", 1, ecx, 8),
    ("vaes", "zmm", 1, ecx, 9),
    ("vpclmulqdq", "zmm", 1, ecx, 10),
    ("avx512bitalg", "zmm", 1, ecx, 12),
    ("avx512vpopcntdq", "zmm", 1, ecx, 14),
}
