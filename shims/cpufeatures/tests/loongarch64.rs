//! LoongArch64 tests

#![cfg(target_arch = "loongarch64")]

cpufeatures::new!(
    lacaps, "cpucfg", "lam", "ual", "fpu", "lsx", "lasx", "crc32", "complex", "crypto", "lvz",
    "lbt.x86", "lbt.arm", "lbt.mips", "ptw"
);

#[test]
fn init() {
    let token: lacaps::InitToken = lacaps::init();
    assert_eq!(token.get(), lacaps::get());
}

#[test]
fn init_get() {
    let (token, val) = lacaps::init_get();
    assert_eq!(val, token.get());
}
