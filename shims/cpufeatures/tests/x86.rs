//! x86/x86_64 tests

#![cfg(any(target_arch = "x86", target_arch = "x86_64"))]

cpufeatures::new!(cpuid, "aes", "sha");

#[test]
fn init() {
    let token: cpuid::InitToken = cpuid::init();
    assert_eq!(token.get(), cpuid::get());
}

#[test]
fn init_get() {
    let (token, val) = cpuid::init_get();
    assert_eq!(val, token.get());
}
