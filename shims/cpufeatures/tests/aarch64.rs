//! ARM64 tests

#![cfg(target_arch = "aarch64")]

cpufeatures::new!(armcaps, "aes", "sha2", "sha3", "sm4");

#[test]
fn init() {
    let token: armcaps::InitToken = armcaps::init();
    assert_eq!(token.get(), armcaps::get());
}

#[test]
fn init_get() {
    let (token, val) = armcaps::init_get();
    assert_eq!(val, token.get());
}
