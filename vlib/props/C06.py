"""C06 — ARIA, Camellia and SM4 conform to RFC 5794, RFC 3713 and GB/T 32907."""
from . import conf
NAMES = ["Aria128", "Aria192", "Aria256", "Camellia128", "Camellia192", "Camellia256", "Sm4"]
RULE = "enc/dec lines for the 7 types, structured + random keys and blocks, compared with the Lean model of the standard"


def run(chk, tier):
    reg = conf.prepare(chk, "BlockCiphers.Thm.C06")
    if reg is None:
        return
    quick = tier == "quick"
    ops = conf.gen_encdec(chk, reg, NAMES, 150 if quick else 6000, 0)
    chk.run_family(["default"] if quick else ["default", "release"], ops)
    conf.require_models(chk, NAMES)
