"""C19 — Debug / AlgorithmName output is key independent and names the algorithm."""
import re
from ..common import hx, build_harness, CONFIGS
from .. import registry

RULE = ("debug line for every registry type with 6 keys (random, all-zero, printable ASCII, 0x2A.. pattern); algname per type; "
        "oracle: identical text for all keys, no key hex/decimal substring, text names the type; RC5 prints w/r/b")

# identifier(s) each public type must be named by (written from the public API, not from the code)
ALIAS = {"BlowfishLE": ["Blowfish<LE>", "BlowfishLE"], "Blowfish": ["Blowfish<BE>", "Blowfish"],
         "Gost89Test": ["Gost89<TestSbox>", "Gost89Test"], "Gost89User": ["Gost89<User>"], "Xtea": ["XTEA", "Xtea"]}
for x in "ABCD":
    ALIAS["Gost89CryptoPro" + x] = ["Gost89<CryptoPro" + x + ">", "Gost89CryptoPro" + x]
ALGALIAS = {"KuznyechikEnc": ["Kuznyechik"], "KuznyechikDec": ["Kuznyechik"]}
# shadow builds (DESIGN §4.4): the registry name carries a prefix, the type executed is the repository's own type of the
# aarch64 backend, whose Debug / AlgorithmName text names that type (`Aes128Enc { .. }`, `Kuznyechik { ... }`)
for _n in (128, 192, 256):
    for _sfx in ("", "Enc", "Dec"):
        ALIAS[f"Armv8Aes{_n}{_sfx}"] = [f"Aes{_n}{_sfx}"]
        ALGALIAS[f"Armv8Aes{_n}{_sfx}"] = [f"Aes{_n}"] if _sfx == "" else [f"Aes{_n}{_sfx}", f"Aes{_n}"]
for _sfx in ("", "Enc", "Dec"):
    ALIAS["NeonKuznyechik" + _sfx] = ["Kuznyechik" + _sfx]
    ALGALIAS["NeonKuznyechik" + _sfx] = ["Kuznyechik"]


def expected_names(name):
    m = re.fullmatch(r"Rc5_(\d+)_(\d+)_(\d+)", name)
    if m:
        return None
    return ALIAS.get(name, [name])


def run(chk, tier):
    chk.proof_obligations("BlockCiphers.Thm.C19")
    ok, log = build_harness(CONFIGS["default"])
    if not ok:
        chk.broken.append({"config": "default", "build": log[-1500:]})
        return
    reg = registry.load()
    r = chk.rng
    ops = []
    keys_of = {}
    nk = 6 if tier == "quick" else 40
    for e in reg:
        L = e["ks"]
        ks = [bytes(L), bytes((0x41 + i % 26) for i in range(L)), bytes([0x2A]) * L] + [r.bytes(L) for _ in range(nk - 3)]
        for k in ks:
            ops.append(f"debug {e['name']} {hx(k)}")
            chk.case((e["name"], hx(k)), nontrivial=any(k), sample=ops[-1] if r.below(200) == 0 else None)
        ops.append(f"algname {e['name']}")
    first = {}

    def oracle(op, out):
        t = op.split(" ")
        name = t[1]
        if not out.startswith("s:"):
            return f"no text: {out}"
        txt = out[2:]
        m = re.fullmatch(r"Rc5_(\d+)_(\d+)_(\d+)", name)
        if t[0] == "debug":
            if txt == "<no-debug-impl>":
                return None
            if name in first and first[name] != txt:
                return f"Debug output differs between keys: {first[name]!r} vs {txt!r}"
            first.setdefault(name, txt)
            k = t[2]
            if k != "-" and len(k) >= 8 and any(k[i:i + 8] in txt.lower() for i in range(0, len(k) - 7, 2)):
                return "Debug output contains key bytes"
            if m:
                if not re.match(rf"RC5 - u{m.group(1)}/{m.group(2)}/{m.group(3)}\b", txt):
                    return f"RC5 Debug must print word size, rounds and key length {m.groups()}: {txt!r}"
                return None
            if not any(txt.lower().startswith(a.lower()) for a in expected_names(name)):
                return f"Debug output {txt!r} does not name the type {name}"
        else:
            if m:
                if not re.fullmatch(rf"RC5 - u{m.group(1)}/{m.group(2)}/{m.group(3)}", txt):
                    return f"RC5 algorithm name must print word size, rounds and key length {m.groups()}: {txt!r}"
                return None
            al = ALGALIAS.get(name, expected_names(name))
            if not any(txt.lower() == a.lower() for a in al):
                return f"algorithm name {txt!r} does not identify {name}"
        return None
    cfgs = ["default", "cpuoff", "forcesoft", "kuzsoft", "kuzcompact"] if tier == "quick" else \
        ["default", "cpuoff", "forcesoft", "compact", "softcompact", "kuzsoft", "kuzcompact", "serpentloop", "release", "allfeat"]
    for cn in cfgs:
        first.clear()
        chk.run_family([cn], ops, oracle=oracle)
