"""C15 — results depend only on key and input, not on call history or threads."""
import os
from ..common import hx, CONFIGS, run_harness, build_harness
from .. import registry
from .gens import key_for

RULE = ("hist scripts: random 5..60 construct/convert (13 Enc/Dec/clone routes of AES and Kuznyechik)/clone/drop/enc/dec/multi-block ops over 1..5 named instances of mixed types; every "
        "result is compared with the result of a freshly constructed cipher on the same input (separate lines); thr lines: "
        "4..16 threads sharing one instance while constructing their own, each in a FRESH process (first use races CPU "
        "feature detection), compared with single-threaded results; non-trivial = distinct scripts with >= 2 instances")


ROUTES = ["c.from_e", "c.from_eref", "d.from_e", "d.from_eref", "c.clone", "e.clone", "d.clone", "c.clone_from_e", "d.clone_from_e",
          "c.from_eclone", "d.from_eclone", "e.new", "d.new"]


def run(chk, tier):
    chk.proof_obligations("BlockCiphers.Thm.C15")
    quick = tier == "quick"
    ok, log = build_harness(CONFIGS["default"])
    if not ok:
        chk.broken.append({"config": "default", "build": log[-1500:]})
        return
    reg = registry.load()
    r = chk.rng
    ops = []
    checks = []  # (hist line index, [fresh line indices])
    nscripts = 150 if quick else 4000
    for s in range(nscripts):
        ninst = 1 + r.below(5)
        inst = {}
        cmds = []
        fresh = []
        nops = 5 + r.below(56)
        for step in range(nops):
            c = r.below(10)
            if not inst or c == 0:
                e = r.choice(reg)
                if e["caps"] != "ed":
                    continue
                k = key_for(r, e, step)
                iid = f"i{r.below(ninst)}"
                cmds.append(f"n:{iid}:{e['name']}:{hx(k)}")
                inst[iid] = (e, k)
            elif c == 3 and step % 2 == 0:
                # an instance obtained by conversion / clone routes (Enc -> combined / Dec, by value or by reference)
                fam = r.choice(["Aes128", "Aes192", "Aes256", "Kuznyechik", "Armv8Aes128", "Armv8Aes256", "NeonKuznyechik"])
                route = r.choice(ROUTES)
                tname = fam if route.startswith("c.") else fam + ("Enc" if route.startswith("e.") else "Dec")
                e = next(x for x in reg if x["name"] == tname)
                k = r.bytes(e["ks"])
                iid = f"i{r.below(ninst)}"
                cmds.append(f"r:{iid}:{fam}:{route}:{hx(k)}")
                inst[iid] = (e, k)
            elif c == 1:
                src = r.choice(sorted(inst))
                if inst[src][0]["name"] == "Xtea":
                    continue
                dst = f"i{r.below(ninst)}"
                if dst == src:
                    continue
                cmds.append(f"c:{dst}:{src}")
                inst[dst] = inst[src]
            elif c == 2 and len(inst) > 1:
                iid = r.choice(sorted(inst))
                cmds.append(f"x:{iid}")
                del inst[iid]
            else:
                iid = r.choice(sorted(inst))
                e, k = inst[iid]
                kind = r.choice([x for x in ["e", "d", "E", "D"] if x.lower() in e["caps"]])
                nb = 1 if kind in "ed" else 1 + r.below(12)
                data = r.bytes(e["bl"] * nb)
                cmds.append(f"{kind}:{iid}:{hx(data)}")
                if kind in "ed":
                    fresh.append(f"{'enc' if kind == 'e' else 'dec'} {e['name']} {hx(k)} {hx(data)}")
                else:
                    fresh.append(f"{'encs' if kind == 'E' else 'decs'} {e['name']} single 0 {hx(k)} {hx(data)}")
        if not fresh:
            continue
        hi = len(ops)
        ops.append("hist " + ";".join(cmds))
        fi = list(range(len(ops), len(ops) + len(fresh)))
        ops.extend(fresh)
        checks.append((hi, fi))
        chk.case(("hist", s, len(cmds)), nontrivial=ninst >= 2, sample=ops[hi][:300] if r.below(60) == 0 else None)
    cfgs = ["default", "cpuoff"] if quick else ["default", "cpuoff", "release", "kuzsoft", "forcesoft"]
    outs, model = chk.run_family(cfgs, ops)
    for cn, impl in outs.items():
        for hi, fi in checks:
            got = impl[hi].split(",")
            exp = [impl[i].split(" ")[0] for i in fi]
            if got != exp:
                bad = next((j for j in range(min(len(got), len(exp))) if got[j] != exp[j]), -1)
                chk.violation(ops[hi][:150], {"kind": "direct-oracle", "config": cn, "op": ops[hi], "impl": impl[hi],
                                              "fresh": exp, "first_difference_at_result": bad,
                                              "oracle": "a result inside the history differs from a freshly constructed cipher's result"})
    # threads: one fresh process per line
    tcfgs = ["default", "cpuoff"] if quick else ["default", "cpuoff", "release"]
    nthr = 40 if quick else 600
    for cn in tcfgs:
        cfg = CONFIGS[cn]
        for t in range(nthr):
            e = r.choice(reg)
            if t % 2 == 0:
                want = r.choice(["Aes128", "Aes256", "Aes192Enc", "Aes128Dec", "Kuznyechik"])
                e = next(x for x in reg if x["name"] == want)
            k = r.bytes(registry.spec_lens(e)[-1])
            nb = 8 + r.below(40)
            data = r.bytes(e["bl"] * nb)
            nt = r.choice([4, 8, 16])
            d = "encs" if "e" in e["caps"] else "decs"
            lines = [f"thr {e['name']} {nt} {hx(k)} {hx(data)}"]
            got = run_harness(cfg, lines)[0]
            ref = run_harness(cfg, [f"{d} {e['name']} single 0 {hx(k)} {hx(data)}"])[0].split(" ")[0]
            chk.case(("thr", cn, e["name"], hx(k)), nontrivial=True, sample=lines[0][:200] if t == 0 else None)
            chk.note_hist(f"{cn}:thr")
            if got != f"{ref}:{ref}":
                chk.violation(lines[0][:150], {"kind": "direct-oracle", "config": cn, "op": lines[0], "impl": got, "single_threaded": ref,
                                               "oracle": "a result computed under concurrent use differs from the single-threaded result"})
    chk.assumptions.append("real thread schedules are sampled, not enumerated; the interleaving theorem is about the model's atomic "
                           "steps and assumes single-location coherence for the cpufeatures cache cell (DESIGN §7 C15)")
