"""C12 — Enc / Dec / converted / cloned instances agree."""
from ..common import hx
from .. import registry

RULE = ("route lines: {combined, Enc, Dec} x {new, From<Enc>, From<&Enc>, clone, clone of converted, converted clone} for "
        "Aes128/192/256 and Kuznyechik, under NI / detection-off soft arm / force_soft / compact / Kuznyechik soft backends; "
        "every other Clone type: clone (original dropped) vs fresh; compared through 4 probe blocks in each supported "
        "direction; non-trivial = distinct (family, route, key)")
ROUTES = ["c.new", "e.new", "d.new", "c.from_e", "c.from_eref", "d.from_e", "d.from_eref", "c.clone", "e.clone", "d.clone",
          "c.clone_from_e", "d.clone_from_e", "c.from_eclone", "d.from_eclone"]


def run(chk, tier):
    chk.proof_obligations("BlockCiphers.Thm.C12")
    quick = tier == "quick"
    cfgs = ["default", "cpuoff", "forcesoft", "kuzsoft", "kuzcompact", "zeroize", "zeroize-cpuoff", "o0", "cpuoff-o0"] if quick else \
        ["default", "cpuoff", "forcesoft", "compact", "softcompact", "kuzsoft", "kuzcompact", "release", "cpuoff-release",
         "zeroize", "zeroize-cpuoff", "zeroize-release", "zeroize-soft", "zeroize-kuzsoft", "zeroize-kuzcompact", "allfeat", "o0", "cpuoff-o0", "zeroize-o0", "zeroize-cpuoff-o0"]
    from ..common import build_harness, CONFIGS
    ok, log = build_harness(CONFIGS["default"])
    if not ok:
        chk.broken.append({"config": "default", "build": log[-1500:]})
        return
    reg = registry.load()
    r = chk.rng
    ops = []
    groups = []
    n = 6 if quick else 150
    for fam, L in (("Aes128", 16), ("Aes192", 24), ("Aes256", 32), ("Kuznyechik", 32),
                   ("Armv8Aes128", 16), ("Armv8Aes192", 24), ("Armv8Aes256", 32), ("NeonKuznyechik", 32)):
        for i in range(n):
            k = r.structured(L) if i % 3 == 0 else r.bytes(L)
            start = len(ops)
            for rt in ROUTES:
                ops.append(f"route {fam} {rt} {hx(k)}")
                chk.case((fam, rt, hx(k)), nontrivial=any(k))
            groups.append((start, len(ROUTES)))
    if len(chk.samples) < 3:
        chk.samples.extend(ops[:3])
    pairs = []
    for e in reg:
        for i in range(3 if quick else 40):
            lens = registry.spec_lens(e)
            L = lens[r.below(len(lens))]
            k = r.bytes(L)
            pairs.append(len(ops))
            ops.append(f"probe {e['name']} {hx(k)}")
            ops.append(f"probeclone {e['name']} {hx(k)}")
            chk.case((e["name"], "clone", hx(k)), nontrivial=any(k))
    outs, model = chk.run_family(cfgs, ops)
    for cn, impl in outs.items():
        for start, cnt in groups:
            ref = impl[start]  # c.new : "<enc>:<dec>"
            if ":" not in ref:
                continue
            re_, rd = ref.split(":")
            for i in range(start, start + cnt):
                o = impl[i]
                if ":" not in o:
                    chk.violation(ops[i], {"kind": "direct-oracle", "config": cn, "op": ops[i], "impl": o, "oracle": "route failed"})
                    continue
                a, b = o.split(":")
                if (a != "x" and a != re_) or (b != "x" and b != rd) or (a == "x" and b == "x"):
                    chk.violation(ops[i], {"kind": "direct-oracle", "config": cn, "op": ops[i], "impl": o, "fresh_combined": ref,
                                           "oracle": "instance reached through this route computes a different function than a freshly keyed combined cipher"})
        for i in pairs:
            if impl[i + 1] not in ("noclone", impl[i]):
                chk.violation(ops[i + 1], {"kind": "direct-oracle", "config": cn, "op": ops[i + 1], "impl": impl[i + 1],
                                           "fresh": impl[i], "oracle": "clone computes a different function"})
