"""C20 — encrypt/decrypt are total: no panic, overflow or profile dependence."""
from ..common import hx
from .. import registry
from .gens import key_for, blocks_for

RULE = ("boundary-heavy keys/blocks (all-ones, 0x80.., 0x7f.., single bits, IDEA operands 0/1/ffff/8000, rotation amounts = 0 "
        "mod w) and random ones for every registry type and every accepted key length, single-block both directions, batches, "
        "BelT wide block lengths 32..=300; executed in the dev profile (overflow checks + debug assertions) and in release, "
        "every line under catch_unwind; oracle: no panic, dev output = release output; non-trivial = distinct lines")


def run(chk, tier):
    chk.proof_obligations("BlockCiphers.Thm.C20")
    quick = tier == "quick"
    cfgs = ["default", "release", "cpuoff"] if quick else ["default", "release", "cpuoff", "cpuoff-release", "forcesoft",
                                                          "compact", "softcompact", "kuzsoft", "kuzcompact", "serpentloop"]
    from ..common import build_harness, CONFIGS
    ok, log = build_harness(CONFIGS["default"])
    if not ok:
        chk.broken.append({"config": "default", "build": log[-1500:]})
        return
    reg = registry.load()
    r = chk.rng
    ops = []
    for e in reg:
        lens = registry.spec_lens(e)
        per = (3 if len(lens) > 1 else 30) if quick else (40 if len(lens) > 1 else 1500)
        for L in lens:
            for i in range(per):
                k = r.structured(L) if i % 2 == 0 else r.bytes(L)
                b = r.structured(e["bl"]) if i % 3 != 2 else r.bytes(e["bl"])
                if e["caps"] == "ed":
                    ops.append(f"rt {e['name']} {hx(k)} {hx(b)}")
                else:
                    ops.append(f"{'enc' if e['caps'] == 'e' else 'dec'} {e['name']} {hx(k)} {hx(b)}")
                if i % 5 == 0:
                    d = "encs" if "e" in e["caps"] else "decs"
                    ops.append(f"{d} {e['name']} inplace {r.below(16)} {hx(k)} {hx(blocks_for(r, e, 1 + r.below(20)))}")
    for L in list(range(32, 301)) if not quick else list(range(32, 301, 3)):
        k = r.structured(32)
        d = r.structured(L) if L % 2 else r.bytes(L)
        ops.append(f"wblock enc {hx(k)} {hx(d)}")
        ops.append(f"wblock dec {hx(k)} {hx(d)}")
    for s in (256, 512, 1024):
        for i in range(10 if quick else 300):
            k, t, b = r.structured(s // 8), r.structured(16), r.structured(s // 8)
            for o in ("enc", "dec", "encu64", "decu64"):
                ops.append(f"tf {s} {hx(k)} {hx(t)} {o} {hx(b)}")
    for i in range(60 if quick else 2000):
        k = r.structured(1 + r.below(128))
        ops.append(f"rc2eff {hx(k)} {1 + r.below(1024)} {'enc' if i % 2 else 'dec'} {hx(r.structured(8))}")
    for op in ops:
        chk.case(op[:120], nontrivial=True, sample=op[:160] if r.below(1500) == 0 else None)

    def oracle(op, out):
        if out.startswith("panic:") or out == "abort":
            return f"the call did not return normally: {out}"
        return None
    chk.run_family(cfgs, ops, oracle=oracle, cross=True)
    if quick:
        # every backend at least once in the dev profile: the types whose code depends on the configuration
        hot = [op for op in ops if len(op.split(" ")) > 1 and op.split(" ")[1].startswith(("Aes", "Kuz", "Serpent"))]
        chk.run_family(["forcesoft", "softcompact", "kuzsoft", "kuzcompact", "serpentloop"], hot, oracle=oracle)
    # the 32-bit fixsliced AES backend (executed through #[path]): dev and release, normal and compact — no `panic:` line,
    # and every line equals the model (one wrapping model for both profiles)
    from . import fs32
    fs32.run(chk, 12 if quick else 400, configs=("default", "release", "compact"), oracle_native=False, roundtrip=False, per_block=False)
    for cn in ("default", "release", "compact"):
        pass
    chk.assumptions.append("aborts (allocation failure, stack overflow) cannot be caught in-process; none of the code allocates")
