"""C14 — bcrypt (eksblowfish) key-setup primitives follow Provos–Mazières."""
from ..common import hx
from . import conf
RULE = ("bcrypt scripts: 1..30 (quick) / up to 2^10+1 (thorough) random init / expand / salted-expand / encrypt ops with salts of "
        "1..80 bytes (16 most often; lengths 1..3 and non-multiples of 4 included) and keys of 1..72 bytes incl. non-multiples of 4; per-op outputs and a digest of the whole state compared "
        "with the Lean model; plain = salted with zero salt and = ordinary Blowfish keying evaluated directly on the crate")


def run(chk, tier):
    reg = conf.prepare(chk, "BlockCiphers.Thm.C14", cfg="bcrypt")
    if reg is None:
        return
    quick = tier == "quick"
    r = chk.rng
    ops = []
    for s in range(60 if quick else 600):
        n = 1 + r.below(30)
        if not quick and s % 100 == 0:
            n = 1025
        cmds = []
        for i in range(n):
            c = r.below(8)
            if c == 0:
                cmds.append("init")
            elif c <= 2:
                cmds.append(f"expand:{hx(r.bytes(1 + r.below(72)))}")
            elif c <= 5:
                # salts of ANY length >= 1 (the property's quantifier): bcrypt itself uses 16 bytes, but the cyclic word reader is
                # only exercised by lengths that are not multiples of 4 (a word then straddles the wrap point) and by 1..3 bytes
                sl = 16 if r.below(3) == 0 else r.choice([1, 2, 3, 4, 5, 6, 7, 8, 9, 10, 11, 12, 13, 15, 17, 19, 20, 23, 32, 33, 72]) if r.below(2) else 1 + r.below(80)
                cmds.append(f"salted:{hx(r.bytes(sl))}:{hx(r.bytes(1 + r.below(72)))}")
            else:
                cmds.append(f"enc:{r.next() & 0xFFFFFFFF:08x}:{r.next() & 0xFFFFFFFF:08x}")
        ops.append("bcrypt " + ";".join(cmds))
        chk.case(("script", s, n), nontrivial=n >= 2, sample=ops[-1][:300] if r.below(20) == 0 else None)
    # relations on the real crate
    rel = []
    for i in range(40 if quick else 800):
        k = r.bytes(4 + r.below(53))
        z = len(ops)
        ops.append(f"bcrypt init;expand:{hx(k)}")
        ops.append(f"bcrypt init;salted:{hx(bytes(16))}:{hx(k)}")
        rel.append((z, z + 1, "plain expansion must equal the salted one with an all-zero salt"))
        chk.case(("rel", hx(k)))
    outs, model = chk.run_family(["bcrypt"], ops)
    if chk.nomodel:
        chk.broken.append({"no_model_for": ["bcrypt"]})
    impl = outs.get("bcrypt", [])
    for i, j, why in rel:
        if j < len(impl) and impl[i].split("st=")[-1] != impl[j].split("st=")[-1]:
            chk.violation(ops[i], {"kind": "direct-oracle", "config": "bcrypt", "ops": [ops[i], ops[j]], "impl": [impl[i], impl[j]], "oracle": why})
