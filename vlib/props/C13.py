"""C13 — weak-key screening flags exactly the degenerate keys."""
from ..common import hx, unhx, build_harness, CONFIGS
from .. import registry
from .des_weak import WEAK64

RULE = ("DES: all 64 listed keys x parity patterns (quick: 24 random patterns + all-cleared + all-set each; thorough: all 256), "
        "their one-bit (non-parity) neighbours, random keys; TDES: keys with a weak part / equal parts / parts equal up to "
        "parity / all distinct; AES: first half zero, single bit in every position, random; every other type: never fails; "
        "newchecked vs weak and vs plain constructor (probe)")

MASK = bytes([0xFE] * 8)
WEAKSET = {bytes(a & 0xFE for a in bytes.fromhex(k)) for k in WEAK64}


def strip(k):
    return bytes(a & 0xFE for a in k)


def des_weak(k):
    return strip(k) in WEAKSET


def expected_weak(name, k):
    """the property's own definition"""
    if name.startswith(("Aes", "Armv8Aes")):
        return not any(k[: len(k) // 2])
    if name == "Des":
        return des_weak(k)
    if name.startswith("Tdes"):
        parts = [k[i:i + 8] for i in range(0, len(k), 8)]
        if any(des_weak(p) for p in parts):
            return True
        sp = [strip(p) for p in parts]
        return len(set(sp)) < len(sp)
    return False


def run(chk, tier):
    chk.proof_obligations("BlockCiphers.Thm.C13")
    quick = tier == "quick"
    ok, log = build_harness(CONFIGS["default"])
    if not ok:
        chk.broken.append({"config": "default", "build": log[-1500:]})
        return
    reg = registry.load()
    r = chk.rng
    keys = []  # (name, key)

    def parity_variants(k, n):
        res = [strip(k), bytes(a | 1 for a in k), k]
        if n >= 256:
            res = [bytes((a & 0xFE) | ((p >> i) & 1) for i, a in enumerate(k)) for p in range(256)]
        else:
            for _ in range(n):
                p = r.below(256)
                res.append(bytes((a & 0xFE) | ((p >> i) & 1) for i, a in enumerate(k)))
        return res
    npar = 24 if quick else 256
    for w in WEAK64:
        k = bytes.fromhex(w)
        for v in parity_variants(k, npar):
            keys.append(("Des", v))
        for _ in range(4 if quick else 56):
            bit = r.below(56)
            byte, b = bit // 7, 1 + bit % 7
            nb = bytearray(k)
            nb[byte] ^= 1 << b
            keys.append(("Des", bytes(nb)))
    for _ in range(300 if quick else 20000):
        keys.append(("Des", r.bytes(8)))
    for name, nparts in (("TdesEde3", 3), ("TdesEee3", 3), ("TdesEde2", 2), ("TdesEee2", 2)):
        for _ in range(120 if quick else 4000):
            parts = [r.bytes(8) for _ in range(nparts)]
            c = r.below(6)
            if c == 0:
                parts[r.below(nparts)] = r.choice(parity_variants(bytes.fromhex(r.choice(WEAK64)), 3))
            elif c == 1:
                i, j = r.below(nparts), r.below(nparts)
                parts[i] = parts[j]
            elif c == 2:
                i, j = r.below(nparts), r.below(nparts)
                if i != j:
                    p = r.below(256)
                    parts[i] = bytes(a ^ ((p >> t) & 1) for t, a in enumerate(parts[j]))
            elif c == 3:
                i, j = r.below(nparts), r.below(nparts)
                if i != j:
                    nb = bytearray(parts[j])
                    nb[r.below(8)] ^= 1 << (1 + r.below(7))
                    parts[i] = bytes(nb)
            keys.append((name, b"".join(parts)))
    for e in reg:
        n, ks = e["name"], e["ks"]
        if n.startswith(("Aes", "Armv8Aes")):
            half = ks // 2
            keys.append((n, bytes(ks)))
            for bit in range(8 * ks):
                b = bytearray(ks)
                b[bit // 8] = 1 << (bit % 8)
                keys.append((n, bytes(b)))
            for _ in range(20 if quick else 500):
                keys.append((n, bytes(half) + r.bytes(ks - half)))
                keys.append((n, r.bytes(ks)))
                keys.append((n, r.structured(ks)))
        elif not (n == "Des" or n.startswith("Tdes")):
            keys.append((n, bytes(ks)))
            keys.append((n, b"\xff" * ks))
            for _ in range(4 if quick else 60):
                keys.append((n, r.structured(ks)))
                keys.append((n, r.bytes(ks)))
    ops = []
    exp = {}
    for n, k in keys:
        for opn in ("weak", "newchecked"):
            op = f"{opn} {n} {hx(k)}"
            ops.append(op)
            exp[op] = expected_weak(n, k)
        ops.append(f"probefixed {n} {hx(k)}")
        chk.case((n, hx(k)), nontrivial=True, sample=f"weak {n} {hx(k)}" if r.below(1500) == 0 else None)
    plain = {}

    def oracle(op, out):
        t = op.split(" ")
        if t[0] == "probefixed":
            plain[(t[1], t[2])] = out
            return None
        e = exp[op]
        if t[0] == "weak":
            if out != ("err-weak" if e else "ok"):
                return f"weak_key_test returned {out}; the property requires {'err-weak' if e else 'ok'}"
        if t[0] == "newchecked":
            if e:
                if out != "err-weak":
                    return f"new_checked returned {out[:20]} for a key the property calls weak"
            else:
                if not out.startswith("ok:"):
                    return f"new_checked returned {out} for a key that is not weak"
        return None
    # order: probefixed first so that newchecked can be compared with it
    ops_sorted = [o for o in ops if o.startswith("probefixed")] + [o for o in ops if not o.startswith("probefixed")]
    outs, model = chk.run_family(["default"], ops_sorted, oracle=oracle)
    impl = outs.get("default", [])
    for op, out in zip(ops_sorted, impl):
        t = op.split(" ")
        if t[0] == "newchecked" and out.startswith("ok:"):
            p = plain.get((t[1], t[2]))
            if p is not None and p != out[3:]:
                chk.violation(op, {"kind": "direct-oracle", "config": "default", "op": op, "impl": out,
                                   "oracle": "new_checked returned a different cipher than new"})
