"""C11 — key-length contract: exact accepted lengths, clean rejection, same cipher."""
from ..common import hx, build_harness, CONFIGS
from .. import registry

RULE = ("every registry type x every slice length 0..=300 (quick: one random content per length; thorough: 20) under "
        "catch_unwind; constructor pairs (fixed-size vs slice, Rc2 eff=8*len, padded Cast5/Cast6/Serpent) compared "
        "through probe ciphertexts; non-trivial = distinct (type,length,content) with length > 0")


def run(chk, tier):
    chk.proof_obligations("BlockCiphers.Thm.C11")
    quick = tier == "quick"
    ok, log = build_harness(CONFIGS["default"])
    if not ok:
        chk.broken.append({"config": "default", "build": log[-1500:]})
        return
    reg = registry.load()
    r = chk.rng
    ops = []
    expect = {}
    reps = 1 if quick else 20
    lens = list(range(0, 301)) + ([] if quick else [1024, 4096, 65536])
    for e in reg:
        acc = set(registry.spec_lens(e))
        for L in lens:
            for _ in range(reps):
                k = r.bytes(L) if r.below(4) else r.structured(L)
                op = f"new {e['name']} {hx(k)}"
                ops.append(op)
                expect[op] = "ok" if L in acc else "err-len"
                chk.case((e["name"], L, hx(k)[:32]), nontrivial=L > 0, sample=op if r.below(3000) == 0 else None)

    def oracle(op, out):
        if op in expect and out != expect[op]:
            L = len(op.split(" ")[2]) // 2 if op.split(" ")[2] != "-" else 0
            return f"key length {L}: got {out}, the property requires {expect[op]}"
        return None
    chk.run_family(["default"], ops, oracle=oracle)

    # constructor pairs: each pair of lines must print the same probe
    pairs = []
    ops2 = []

    def pair(a, b, why):
        pairs.append((len(ops2), len(ops2) + 1, why))
        ops2.extend([a, b])
    n = 3 if quick else 40
    for e in reg:
        for _ in range(n):
            k = r.bytes(e["ks"])
            pair(f"probefixed {e['name']} {hx(k)}", f"probe {e['name']} {hx(k)}", "fixed-size key vs slice")
    for L in range(1, 129):
        for _ in range(1 if quick else 4):
            k, b = r.bytes(L), r.bytes(8)
            pair(f"enc Rc2 {hx(k)} {hx(b)}", f"rc2eff {hx(k)} {8 * L} enc {hx(b)}", "Rc2 slice vs eff=8*len")
            pair(f"dec Rc2 {hx(k)} {hx(b)}", f"rc2eff {hx(k)} {8 * L} dec {hx(b)}", "Rc2 slice vs eff=8*len")
    for L in range(11, 16):
        for _ in range(n):
            k = r.bytes(L)
            pair(f"probe Cast5 {hx(k)}", f"probe Cast5 {hx(k + bytes(16 - L))}", "Cast5 short (>80 bit) vs zero padded")
    for L in (16, 20, 24, 28):
        for _ in range(n):
            k = r.bytes(L)
            pair(f"probe Cast6 {hx(k)}", f"probe Cast6 {hx(k + bytes(32 - L))}", "Cast6 short vs zero padded")
    for L in range(16, 32):
        for _ in range(n):
            k = r.bytes(L)
            padded = k + bytes([1]) + bytes(31 - L)
            pair(f"probe Serpent {hx(k)}", f"probe Serpent {hx(padded)}", "Serpent short vs 1-bit-then-zeros padded")
    outs, model = chk.run_family(["default"], ops2, family="pairs")
    impl = outs.get("default", [])
    for i, j, why in pairs:
        chk.case(("pair", ops2[i]), sample=None)
        if i < len(impl) and impl[i] != impl[j]:
            chk.violation(f"{ops2[i]} vs {ops2[j]}",
                          {"kind": "direct-oracle", "config": "default", "ops": [ops2[i], ops2[j]],
                           "impl": [impl[i], impl[j]], "oracle": why + ": the two constructions are different ciphers"})
