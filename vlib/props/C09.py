"""C09 — Blowfish, CAST5, IDEA, RC2 and XTEA conform to their specifications."""
from ..common import hx
from . import conf
NAMES = ["Blowfish", "BlowfishLE", "Cast5", "Idea", "Rc2", "Xtea"]
RULE = ("enc/dec lines: Blowfish/BlowfishLE every key length 4..56, Cast5 5..16, Rc2 every key length 1..128 plus rc2eff lines "
        "over effective lengths 1..1024 (quick: sampled; thorough: all 1024 for several keys), Idea with operand-0/1/ffff/8000 "
        "stress, Xtea; BlowfishLE = byte-swapped Blowfish checked directly on the crate; compared with the Lean model")


def swap_halves(b):
    return b[3::-1] + b[7:3:-1]


def run(chk, tier):
    reg = conf.prepare(chk, "BlockCiphers.Thm.C09")
    if reg is None:
        return
    quick = tier == "quick"
    r = chk.rng
    ops = conf.gen_encdec(chk, reg, NAMES, 120 if quick else 5000, 3 if quick else 120)
    # IDEA operand stress
    specials = [b"\x00\x00", b"\x00\x01", b"\xff\xff", b"\x80\x00", b"\x7f\xff", b"\x01\x00"]
    for i in range(150 if quick else 5000):
        k = b"".join(r.choice(specials) if r.below(2) else r.bytes(2) for _ in range(8))
        b = b"".join(r.choice(specials) if r.below(2) else r.bytes(2) for _ in range(4))
        ops.append(f"{'enc' if i % 2 else 'dec'} Idea {hx(k)} {hx(b)}")
        chk.case(("idea-stress", hx(k), hx(b)))
    effs = list(range(1, 1025)) if not quick else [1, 2, 7, 8, 9, 63, 64, 65, 127, 128, 129, 1000, 1023, 1024] + [1 + r.below(1024) for _ in range(60)]
    for T1 in effs:
        for _ in range(1 if quick else 3):
            k = r.bytes(1 + r.below(128))
            b = r.bytes(8)
            ops.append(f"rc2eff {hx(k)} {T1} {'enc' if T1 % 2 else 'dec'} {hx(b)}")
            chk.case(("rc2eff", hx(k), T1, hx(b)))
    chk.run_family(["default"] if quick else ["default", "release"], ops)
    conf.require_models(chk, NAMES)
    # BlowfishLE relation on the real crate
    ops2 = []
    for L in range(4, 57):
        for _ in range(1 if quick else 20):
            k, b = r.bytes(L), r.bytes(8)
            ops2.append(f"enc BlowfishLE {hx(k)} {hx(b)}")
            ops2.append(f"enc Blowfish {hx(k)} {hx(swap_halves(b))}")
    outs, _ = chk.run_family(["default"], ops2, family="le-relation")
    impl = outs.get("default", [])
    for i in range(0, len(impl) - 1, 2):
        chk.case(("le", ops2[i]))
        try:
            exp = hx(swap_halves(bytes.fromhex(impl[i + 1])))
        except ValueError:
            exp = "?"
        if impl[i] != exp:
            chk.violation(ops2[i], {"kind": "direct-oracle", "config": "default", "ops": ops2[i:i + 2], "impl": impl[i:i + 2],
                                    "oracle": "BlowfishLE must be Blowfish with both 32-bit halves byte-swapped on input and output"})
