"""C01 — decryption inverts encryption (every cipher, key, block, backend)."""
from ..common import hx, unhx
from .. import registry


def oracle(op, out):
    t = op.split(" ")
    if t[0] == "rt":
        if out in ("unsupported",):
            return None
        f = out.split(" ")
        if len(f) != 4:
            return f"rt did not return four blocks: {out}"
        if f[1] != t[3]:
            return f"dec(enc(b)) = {f[1]} ≠ b"
        if f[3] != t[3]:
            return f"enc(dec(b)) = {f[3]} ≠ b"
    if t[0] == "tfrt" or t[0] == "wbrt":
        f = out.split(" ")
        if len(f) != 4 or f[1] != t[-1] or f[3] != t[-1]:
            return f"round trip failed: {out}"
    return None


def gen_ops(chk, reg, per_len, full_lens=True):
    r = chk.rng
    ops = []
    for e in reg:
        if e["caps"] != "ed":
            continue
        lens = registry.spec_lens(e)
        for L in lens:
            n = per_len if len(lens) < 20 else max(2, per_len // 4)
            for i in range(n):
                k = r.structured(L) if i % 2 == 0 else r.bytes(L)
                b = r.structured(e["bl"]) if i % 3 == 0 else r.bytes(e["bl"])
                ops.append(f"rt {e['name']} {hx(k)} {hx(b)}")
    return ops


BACKEND_CFGS = ["cpuoff", "forcesoft", "compact", "softcompact", "kuzsoft", "kuzcompact", "serpentloop"]


def two_stage(chk, cfgs, first, invert, what, norm=lambda x: x):
    """first: ops whose output feeds the inverse op built by invert(op, out); the inverse must give back the input"""
    outs, _ = chk.run_family(cfgs, first, family=what)
    for cn in cfgs:
        impl = outs.get(cn, [])
        ops2, want = [], []
        for op, out in zip(first, impl):
            if out.startswith(("err", "panic", "abort", "unsupported", "bad-op")):
                chk.violation(f"{op[:150]} -> {out}", {"kind": "direct-oracle", "config": cn, "op": op, "impl": out,
                                                       "oracle": "an accepted input must be processed"})
                continue
            o2, w = invert(op, out)
            ops2.append(o2)
            want.append(w)
        o2s, _ = chk.run_family([cn], ops2, family=what + "-inverse")
        for op, w, back in zip(ops2, want, o2s.get(cn, [])):
            if norm(back) != w:
                chk.violation(op[:150] + f" [{cn}]", {"kind": "direct-oracle", "config": cn, "op": op, "impl": back, "expected": w,
                                                     "oracle": "the inverse operation must return the original input"})


def run(chk, tier):
    chk.proof_obligations("BlockCiphers.Thm.C01")
    quick = tier == "quick"
    cfgs = ["default"] if quick else ["default", "release"]
    from ..common import build_harness, CONFIGS
    ok, log = build_harness(CONFIGS["default"])
    if not ok:
        chk.broken.append({"config": "default", "build": log[-1500:]})
        return
    reg = registry.load()
    ops = gen_ops(chk, reg, 6 if quick else 120)
    for op in ops:
        t = op.split(" ")
        chk.case((t[1], t[2], t[3]), nontrivial=(set(t[2]) != {"0"}), sample=op if chk.rng.below(400) == 0 else None)
    chk.run_family(cfgs, ops, oracle=oracle)
    # every backend / build configuration: the types whose code depends on the configuration
    hot = [op for op in gen_ops(chk, [e for e in reg if e["name"].startswith(("Aes", "Kuz", "Serpent"))], 12 if quick else 300)]
    for op in hot:
        t = op.split(" ")
        chk.case((t[1], t[2], t[3]), nontrivial=(set(t[2]) != {"0"}))
    chk.run_family(BACKEND_CFGS if quick else BACKEND_CFGS + ["cpuoff-release"], hot, oracle=oracle)
    # encrypt-only / decrypt-only halves keyed independently with the same key: XDec.dec(XEnc.enc(b)) = b and
    # XEnc.enc(XDec.dec(b)) = b (the halves are separate types with their own constructors: a decrypt-only type whose
    # `new` derives its keys wrongly is not seen by any combined-type round trip)
    names = {e["name"]: e for e in reg}
    halves = [(n, n[:-3] + "Dec") for n in names if n.endswith("Enc") and n[:-3] + "Dec" in names]
    hops = []
    for en, dn in halves:
        e = names[en]
        for i in range(8 if quick else 300):
            k = r_k = chk.rng.structured(e["ks"]) if i % 3 == 0 else chk.rng.bytes(e["ks"])
            b = chk.rng.bytes(e["bl"])
            hops.append(f"enc {en} {hx(k)} {hx(b)}")
            hops.append(f"dec {dn} {hx(k)} {hx(b)}")
            chk.case(("halves", en, hx(k), hx(b)), nontrivial=any(k))

    def half_inv(op, out):
        t = op.split(" ")
        other = t[1][:-3] + ("Dec" if t[0] == "enc" else "Enc")
        return f"{'dec' if t[0] == 'enc' else 'enc'} {other} {t[2]} {out}", t[3]
    two_stage(chk, ["default", "cpuoff", "forcesoft", "kuzsoft"] if quick else BACKEND_CFGS + ["default"], hops, half_inv, "halves")
    # the round trip through the multi-block / out-of-place entry points (a decrypt that reads its *output* buffer is the
    # identity of nothing in a buffer-to-buffer call and invisible in place — seeded `C08-twofish-dec-load-out`): batches
    # encrypted in one call shape must decrypt in another, and the other way round
    from .conf import SHAPES
    sops = []
    for e in reg:
        if e["caps"] != "ed":
            continue
        hot_t = e["name"].startswith(("Aes", "Kuz"))
        for i in range((2 if quick else 40) * (2 if hot_t else 1)):
            k = chk.rng.bytes(e["ks"])
            cnt = 1 + chk.rng.below(20 if hot_t else 4)
            data = b"".join(chk.rng.bytes(e["bl"]) for _ in range(cnt))
            sh = SHAPES[(i + len(e["name"])) % len(SHAPES)]
            d = "enc" if i % 2 == 0 else "dec"
            sops.append(f"{d}s {e['name']} {sh} {chk.rng.below(16)} {hx(k)} {hx(data)}")
            chk.case(("shapes", e["name"], d, sh, hx(k), hx(data)[:48]))

    def shape_inv(op, out):
        t = op.split(" ")
        sh2 = SHAPES[(SHAPES.index(t[2]) + 1 + len(t[4]) % 5) % len(SHAPES)]
        return f"{'decs' if t[0] == 'encs' else 'encs'} {t[1]} {sh2} {(int(t[3]) + 5) % 16} {t[4]} {out.split(' ')[0]}", t[5]
    # the harness appends "in=ok canary=ok" (input untouched, nothing written outside the output) to the hex result
    two_stage(chk, ["default", "cpuoff"] if quick else ["default", "cpuoff", "forcesoft", "release"], sops, shape_inv, "shapes",
              norm=lambda x: x.split(" ")[0])
    # the 32-bit fixsliced AES backend (the repository's file, executed through #[path]): both orders, normal and compact
    from . import fs32
    fs32.run(chk, 12 if quick else 400, oracle_native=False, per_block=False)
    # Threefish under any tweak, both entry points, both orders
    r = chk.rng
    tf = []
    for sz in (256, 512, 1024):
        for i in range(12 if quick else 600):
            k, tw, b = (r.structured(sz // 8), r.structured(16), r.structured(sz // 8)) if i % 3 == 0 else (r.bytes(sz // 8), r.bytes(16), r.bytes(sz // 8))
            for o in ("enc", "dec", "encu64", "decu64"):
                tf.append(f"tf {sz} {hx(k)} {hx(tw)} {o} {hx(b)}")
            chk.case(("tf", sz, hx(k), hx(tw), hx(b)), nontrivial=any(tw))
    inv = {"enc": "dec", "dec": "enc", "encu64": "decu64", "decu64": "encu64"}

    def tf_inv(op, out):
        t = op.split(" ")
        return f"tf {t[1]} {t[2]} {t[3]} {inv[t[4]]} {out}", t[5]
    two_stage(chk, cfgs, tf, tf_inv, "tf")
    # BelT wide block, both orders: every length 32..=120, a sample up to 300, and lengths past the byte boundaries of the
    # round counter (256 rounds at 2033 bytes, 512 at 4081)
    wb = []
    lens = list(range(32, 121)) + [127, 128, 129, 160, 161, 255, 256, 257, 300, 2032, 2033, 2049, 4081, 5003]
    if not quick:
        lens += list(range(121, 301)) + [8192, 8193]
    for L in lens:
        for i in range(1 if (quick or L > 300) else 10):
            k, d = r.bytes(32), (r.structured(L) if i % 2 else r.bytes(L))
            wb.append(f"wblock enc {hx(k)} {hx(d)}")
            wb.append(f"wblock dec {hx(k)} {hx(d)}")
            chk.case(("wblock", L, hx(k), hx(d)[:48]))

    def wb_inv(op, out):
        t = op.split(" ")
        return f"wblock {'dec' if t[1] == 'enc' else 'enc'} {t[2]} {out}", t[3]
    two_stage(chk, cfgs + ["allfeat"], wb, wb_inv, "wblock")   # incl. the build with the optional features (zeroize-gated code in wblock)
