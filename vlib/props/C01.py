"""C01 — decryption inverts encryption (every cipher, key, block, backend)."""
from ..common import hx, unhx
from .. import registry


def oracle(op, out):
    t = op.split(" ")
    if t[0] == "rt":
        if out in ("unsupported",):
            return None
        f = out.split(" ")
        if len(f) != 4:
            return f"rt did not return four blocks: {out}"
        if f[1] != t[3]:
            return f"dec(enc(b)) = {f[1]} ≠ b"
        if f[3] != t[3]:
            return f"enc(dec(b)) = {f[3]} ≠ b"
    if t[0] == "tfrt" or t[0] == "wbrt":
        f = out.split(" ")
        if len(f) != 4 or f[1] != t[-1] or f[3] != t[-1]:
            return f"round trip failed: {out}"
    return None


def gen_ops(chk, reg, per_len, full_lens=True):
    r = chk.rng
    ops = []
    for e in reg:
        if e["caps"] != "ed":
            continue
        lens = registry.spec_lens(e)
        for L in lens:
            n = per_len if len(lens) < 20 else max(2, per_len // 4)
            for i in range(n):
                k = r.structured(L) if i % 2 == 0 else r.bytes(L)
                b = r.structured(e["bl"]) if i % 3 == 0 else r.bytes(e["bl"])
                ops.append(f"rt {e['name']} {hx(k)} {hx(b)}")
    return ops


def run(chk, tier):
    chk.proof_obligations("BlockCiphers.Thm.C01")
    quick = tier == "quick"
    cfgs = ["default"] if quick else ["default", "release"]
    from ..common import build_harness, CONFIGS
    ok, log = build_harness(CONFIGS["default"])
    if not ok:
        chk.broken.append({"config": "default", "build": log[-1500:]})
        return
    reg = registry.load()
    ops = gen_ops(chk, reg, 6 if quick else 120)
    for op in ops:
        t = op.split(" ")
        chk.case((t[1], t[2], t[3]), nontrivial=(set(t[2]) != {"0"}), sample=op if chk.rng.below(400) == 0 else None)
    chk.run_family(cfgs, ops, oracle=oracle)
