"""shared body of the conformance checks (C02, C05–C10): enc/dec lines for a set of registry types, every accepted key
length, structured + random keys and blocks, compared with the Lean model (which is the standard by theorem)."""
from ..common import hx, build_harness, CONFIGS
from .. import registry

SHAPES = ["b2b", "inout", "inplace", "b2b1", "inout1", "single"]


def gen_encdec(chk, reg, names, per_len, per_len_var):
    r = chk.rng
    ops = []
    for e in reg:
        if e["name"] not in names:
            continue
        lens = registry.spec_lens(e)
        for L in lens:
            n = per_len if len(lens) == 1 else per_len_var
            for i in range(n):
                k = r.structured(L) if i % 2 == 0 else r.bytes(L)
                b = r.structured(e["bl"]) if i % 3 == 0 else r.bytes(e["bl"])
                for d in ("enc", "dec"):
                    if d[0] in e["caps"]:
                        op = f"{d} {e['name']} {hx(k)} {hx(b)}"
                        ops.append(op)
                        chk.case((e["name"], d, hx(k), hx(b)), nontrivial=any(k), sample=op if r.below(700) == 0 else None)
            # the same cipher through the OTHER constructor: `KeyInit::new` on the fixed-size key (types may implement it
            # separately from `new_from_slice` — seeded `C09-xtea-new-be-words`: `new` loaded the key words big-endian, every line
            # above goes through `new_from_slice`); probe = 4 fixed blocks encrypted and decrypted, compared with the model
            if L == e["ks"] and L > 0:
                for i in range(max(2, (per_len if len(lens) == 1 else per_len_var) // 8)):
                    k = r.structured(L) if i % 2 else r.bytes(L)
                    op = f"probefixed {e['name']} {hx(k)}"
                    ops.append(op)
                    chk.case((e["name"], "probefixed", hx(k)), nontrivial=any(k))
            # the same function through the multi-block / out-of-place entry points ("computes X" holds for whichever call
            # shape reaches the cipher): batches around the parallel widths, all blocks different, rotating shapes and offsets
            hot = e["name"].startswith(("Aes", "Kuz"))
            nb = max(2, (per_len if len(lens) == 1 else per_len_var) // (6 if hot else 12))
            for i in range(nb):
                k = r.bytes(L)
                cnt = 1 + r.below(24 if hot else 4)
                data = b"".join(r.bytes(e["bl"]) for _ in range(cnt))
                sh = SHAPES[(i + L) % len(SHAPES)]
                for d in ("enc", "dec"):
                    if d[0] in e["caps"]:
                        op = f"{d}s {e['name']} {sh} {r.below(16)} {hx(k)} {hx(data)}"
                        ops.append(op)
                        chk.case((e["name"], d + "s", sh, hx(k), hx(data)[:48]), nontrivial=True,
                                 sample=op[:200] if r.below(400) == 0 else None)
    return ops


def require_models(chk, names):
    """a conformance property is only *decided* for the types that have a model; a type of the property without a
    model is reported in the evidence and makes the run a broken obligation (never silently skipped)"""
    missing = sorted(n for n in names if chk.nomodel.get(n))
    if missing:
        chk.extra.setdefault("open_no_model_yet", [])
        chk.extra["open_no_model_yet"] += missing
        chk.notes.append("no Lean model yet for: " + ", ".join(missing) + " — their conformance is NOT decided by this run (direct oracles only)")


def prepare(chk, module, cfg="default"):
    chk.proof_obligations(module)
    ok, log = build_harness(CONFIGS[cfg])
    if not ok:
        chk.broken.append({"config": cfg, "build": log[-1500:]})
        return None
    return registry.load(cfg)


KUZ_BACKENDS = {"default": "sse2", "kuzsoft": "soft", "kuzcompact": "compact"}


def kuz_backend_corr(chk, n):
    """each Kuznyechik build against the Lean model OF THAT BACKEND (`kuz <backend> …` lines: big_soft tables and
    3-block batches, SSE2 4-block batches, compact), not only against the registry model (compact)."""
    r = chk.rng
    from ..common import CONFIGS, build_harness, run_harness, run_driver
    gen = []
    for i in range(n):
        k = r.structured(32) if i % 4 == 0 else r.bytes(32)
        cnt = 1 + r.below(14)
        data = b"".join(r.bytes(16) for _ in range(cnt))
        for d in ("enc", "dec"):
            gen.append((d, hx(k), hx(data)))
    for cn, be in KUZ_BACKENDS.items():
        cfg = CONFIGS[cn]
        ok, log = build_harness(cfg)
        if not ok:
            chk.broken.append({"config": cn, "build": log[-1500:]})
            continue
        hops = [f"{d}s Kuznyechik inplace 0 {k} {x}" for d, k, x in gen]
        mops = [f"kuz {be} {d} {k} {x}" for d, k, x in gen]
        impl = [o.split(" ")[0] for o in run_harness(cfg, hops)]
        model = run_driver(mops)
        chk.compare(cn, mops, impl, model, family="kuz-" + be)
        if cn not in chk.configs:
            chk.configs.append(cn)
