"""C17 — AES hazmat round functions equal the FIPS-197 round transformations."""
from ..common import hx
from . import conf
RULE = ("hazmat lines for the six functions (single and 8-block parallel) on structured + random blocks and round keys under "
        "AES-NI, detection forced off, aes_force_soft and aes_force_soft+aes_compact builds, compared with the FIPS-197 Lean "
        "specification; mix/inv_mix mutual inverses and par = 8 single calls evaluated directly on the crate")


def run(chk, tier):
    reg = conf.prepare(chk, "BlockCiphers.Thm.C17", cfg="hazmat")
    if reg is None:
        return
    quick = tier == "quick"
    r = chk.rng
    ops = []
    rel = []
    for i in range(120 if quick else 5000):
        b, k = (r.structured(16), r.structured(16)) if i % 3 == 0 else (r.bytes(16), r.bytes(16))
        for f in ("cipher_round", "equiv_inv_cipher_round"):
            ops.append(f"hazmat {f} {hx(b)} {hx(k)}")
        ops.append(f"hazmat mix_columns {hx(b)}")
        ops.append(f"hazmat inv_mix_columns {hx(b)}")
        chk.case(("single", hx(b), hx(k)))
    for i in range(40 if quick else 1500):
        bs = [r.bytes(16) for _ in range(8)]
        ks = [r.bytes(16) for _ in range(8)]
        for f in ("cipher_round", "equiv_inv_cipher_round"):
            z = len(ops)
            ops.append(f"hazmat {f}_par {hx(b''.join(bs))} {hx(b''.join(ks))}")
            for b, k in zip(bs, ks):
                ops.append(f"hazmat {f} {hx(b)} {hx(k)}")
            rel.append((z, list(range(z + 1, z + 9))))
        chk.case(("par", hx(bs[0]), hx(ks[0])))
    cfgs = ["hazmat", "hazmat-cpuoff", "hazmat-soft", "hazmat-softcompact"]
    outs, model = chk.run_family(cfgs, ops, cross=True)
    # fixslice32's hazmat functions (the repository's file through #[path]): same single-block lines, `aesfs32hz`; compared with
    # their Lean model and with the native answers
    fops = ["aesfs32hz" + op[len("hazmat"):] for op in ops if "_par" not in op]
    nat = {("aesfs32hz" + op[len("hazmat"):]): o for op, o in zip(ops, outs.get("hazmat", []))}
    fouts, _ = chk.run_family(["hazmat", "hazmat-softcompact"], fops, family="aesfs32hz")
    for cn, res in fouts.items():
        for op, a in zip(fops, res):
            if a != nat.get(op):
                chk.violation(op[:150] + f" [fs32≠native {cn}]", {"kind": "config-divergence", "configs": ["fixslice32", cn], "op": op, "fs32": a, "native": nat.get(op)})
    # the ARMv8 hazmat functions (/repo/aes/src/armv8/hazmat.rs over software intrinsics): same lines, `hazmatarm`; compared
    # with their Lean model and, on the real build, with the native (AES-NI) answers line by line
    aops = ["hazmatarm" + op[len("hazmat"):] for op in ops]
    aouts, _ = chk.run_family(["hazmat"], aops, family="hazmatarm")
    for op, a, b in zip(aops, aouts.get("hazmat", []), outs.get("hazmat", [])):
        if a != b:
            chk.violation(op[:150] + " [armv8≠native]", {"kind": "config-divergence", "configs": ["armv8-shadow", "hazmat"], "op": op, "armv8": a, "native": b})
    if chk.nomodel:
        chk.broken.append({"no_model_for": ["hazmat"]})
    for cn, impl in outs.items():
        for z, singles in rel:
            if impl[z] != "".join(impl[j] for j in singles):
                chk.violation(ops[z][:150], {"kind": "direct-oracle", "config": cn, "op": ops[z], "impl": impl[z],
                                             "singles": [impl[j] for j in singles], "oracle": "the 8-block form must equal eight single calls"})
    # inverse pair: inv_mix_columns(mix_columns(b)) = b, both orders
    ops3 = []
    for i in range(60 if quick else 2000):
        b = r.bytes(16)
        ops3.append(f"hazmat mix_columns {hx(b)}")
    o1, _ = chk.run_family(["hazmat"], ops3, family="mc")
    a = o1.get("hazmat", [])
    ops4 = [f"hazmat inv_mix_columns {x}" for x in a if len(x) == 32]
    o2, _ = chk.run_family(["hazmat"], ops4, family="imc")
    for op, src, back in zip(ops4, ops3, o2.get("hazmat", [])):
        if back != src.split(" ")[2]:
            chk.violation(src, {"kind": "direct-oracle", "config": "hazmat", "ops": [src, op], "impl": back,
                                "oracle": "inv_mix_columns must invert mix_columns"})
