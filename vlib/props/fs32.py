"""The fixsliced 32-bit AES backend (`/repo/aes/src/soft/fixslice32.rs`): never selected on a 64-bit target, so the harness
compiles THE REPOSITORY'S FILE by `#[path]` and exposes it through the `aesfs32*` lines (harness/src/fs32.rs).
This family is shared by the AES properties (C01–C04, C17, C20): each line is compared with the Lean model of fixslice32
(which is FIPS-197 by theorem) and, on the real build, with the crate's own AES types (whatever backend they run on here),
with per-block calls (batch = map) and with its own inverse."""
from ..common import hx, CONFIGS, build_harness, run_harness, run_driver

KEYLENS = (16, 24, 32)
NATIVE = {16: "Aes128", 24: "Aes192", 32: "Aes256"}


def gen(chk, n):
    """[(direction, key, data)] — batches of 1..2 distinct blocks (one `aesN_encrypt` call) and streams of 0..7 blocks"""
    r = chk.rng
    cases = []
    for L in KEYLENS:
        for i in range(n):
            k = r.structured(L) if i % 4 == 0 else r.bytes(L)
            nb = (1, 2, 2, 3, 4, 5, 7, 0)[i % 8]
            blocks = [r.structured(16) if (i + j) % 5 == 0 else r.bytes(16) for j in range(nb)]
            if nb >= 2 and i % 3 == 0:
                # blocks that agree except in their last word / first word / one byte (lane mix-ups hide otherwise)
                base = bytearray(blocks[0])
                for j in range(1, nb):
                    b = bytearray(base)
                    pos = (12 + j) % 16 if i % 2 == 0 else j % 16
                    b[pos] ^= 1 + r.below(255)
                    blocks[j] = bytes(b)
            for d in ("enc", "dec"):
                cases.append((d, k, blocks))
    return cases


def run(chk, n, configs=("default", "compact"), oracle_native=True, roundtrip=True, per_block=True):
    """configs: harness configurations (plain forms answer in non-compact builds, `c` forms in `--cfg aes_compact` builds)"""
    cases = gen(chk, n)
    for cn in configs:
        cfg = CONFIGS[cn]
        ok, log = build_harness(cfg)
        if cn not in chk.configs:
            chk.configs.append(cn)
        if not ok:
            chk.broken.append({"config": cn, "build": log[-1500:]})
            continue
        c = "c" if "aes_compact" in cfg.rustflags else ""
        ops = []
        meta = []
        for d, k, blocks in cases:
            data = b"".join(blocks)
            if 1 <= len(blocks) <= 2:
                ops.append(f"aesfs32{c} {d} {hx(k)} {hx(data)}")
                meta.append(("batch", d, k, blocks))
            ops.append(f"aesfs32{c}b {d} {hx(k)} {hx(data)}")
            meta.append(("stream", d, k, blocks))
        for L in KEYLENS:
            for i in range(max(2, n // 8)):
                ops.append(f"aesfs32{c}ks {hx(chk.rng.bytes(L) if i else bytes(L))}")
                meta.append(("ks", None, None, None))
        impl = run_harness(cfg, ops)
        model = run_driver(ops)
        def no_panic(op, out):
            return f"the call did not return normally: {out}" if out.startswith("panic:") or out == "abort" else None
        chk.compare(cn, ops, impl, model, oracle=no_panic, family=f"aesfs32{c}")
        for (kind, d, k, blocks), op in zip(meta, ops):
            if kind != "ks":
                chk.case(("fs32" + c, kind, d, hx(k), hx(b"".join(blocks))[:64]), nontrivial=bool(blocks) and any(k))
        # direct oracles on the real build ------------------------------------------------------------------
        x_ops, x_idx = [], []
        for i, ((kind, d, k, blocks), op) in enumerate(zip(meta, ops)):
            if kind != "stream" or not blocks:
                continue
            data = b"".join(blocks)
            if oracle_native:   # the crate's own AES type on the same key and data (AES-NI / fixslice64 here)
                x_idx.append((i, len(x_ops), "native"))
                x_ops.append(f"{d}s {NATIVE[len(k)]} inplace 0 {hx(k)} {hx(data)}")
            if per_block:       # a batch is the single-block function applied to each block
                x_idx.append((i, len(x_ops), "per-block", len(blocks)))
                for b in blocks:
                    x_ops.append(f"aesfs32{c} {d} {hx(k)} {hx(b)}")
            if roundtrip:       # the other direction undoes it
                x_idx.append((i, len(x_ops), "roundtrip", data))
                out = impl[i].split(" ")[0]
                x_ops.append(f"aesfs32{c}b {'dec' if d == 'enc' else 'enc'} {hx(k)} {out if out and out != '-' and all(ch in '0123456789abcdef' for ch in out) else '-'}")
        res = run_harness(cfg, x_ops)
        for ent in x_idx:
            i, j, what = ent[0], ent[1], ent[2]
            got = impl[i].split(" ")[0]
            if what == "native":
                exp = res[j].split(" ")[0]
                why = "fixslice32 must compute the same function as the crate's AES type (backend independence / FIPS-197)"
            elif what == "per-block":
                exp = "".join(res[j + t].split(" ")[0] for t in range(ent[3]))
                why = "a multi-block call must equal the single-block call on each block"
            else:
                exp, got = hx(ent[3]), res[j].split(" ")[0]
                why = "decrypt(encrypt(x)) = x and encrypt(decrypt(x)) = x"
            chk.case(("fs32-oracle", what, ops[i][:80]), nontrivial=True)
            if got != exp:
                chk.violation(f"{ops[i][:150]} [{what} {cn}]", {"kind": "direct-oracle", "config": cn, "op": ops[i], "impl": got, "expected": exp,
                                                                "oracle": why})
