"""C18 — BelT wide-block encryption conforms and rejects short input untouched."""
from ..common import hx
from . import conf
RULE = ("wblock enc/dec for EVERY length 0..=300 plus lengths around the 256- and 512-round counter boundaries (2032..2049, "
        "4080..4096, 5003; thorough: 30 contents per length and lengths up to 33000), compared with the Lean model of STB 34.101.31; round trip both orders and 'short input: error, buffer "
        "unchanged' evaluated directly on the crate")


def run(chk, tier):
    reg = conf.prepare(chk, "BlockCiphers.Thm.C18")
    if reg is None:
        return
    quick = tier == "quick"
    r = chk.rng
    ops = []
    # beyond 300: lengths around the points where the round counter (2n rounds, n = ceil(len/16)) crosses a byte
    # boundary (256 rounds at 2033 bytes, 512 at 4081) — a truncated counter is invisible below them — plus odd tails
    big = [512, 1000, 2032, 2033, 2047, 2049, 4080, 4081, 4096, 5003]
    lens = list(range(0, 301)) + (big if quick else big + [1024, 1025, 4095, 4097, 8191, 8192])
    for L in lens:
        for i in range((2 if quick else 30) if L <= 300 else (1 if quick else 3)):
            k = r.structured(32) if i % 2 else r.bytes(32)
            d = r.structured(L) if i % 3 == 0 else r.bytes(L)
            ops.append(f"wblock enc {hx(k)} {hx(d)}")
            ops.append(f"wblock dec {hx(k)} {hx(d)}")
            chk.case(("wblock", L, hx(k), hx(d)[:64]), nontrivial=L >= 32, sample=ops[-2][:200] if r.below(150) == 0 else None)

    def oracle(op, out):
        L = 0 if op.split(" ")[3] == "-" else len(op.split(" ")[3]) // 2
        if L < 32:
            if out != "err-len:unchanged":
                return f"input of {L} bytes must be rejected with the buffer unmodified, got {out[:40]}"
        elif out.startswith("err") or out.startswith("panic"):
            return f"input of {L} bytes must be accepted, got {out}"
        return None
    # "allfeat": belt-block built with its optional `zeroize` feature — the wide-block functions contain feature-gated code
    # paths of their own (wiping of round temporaries), so the feature is part of the configuration space of this property
    outs, model = chk.run_family(["default", "allfeat"] if quick else ["default", "release", "allfeat", "zeroize"], ops, oracle=oracle)
    if chk.nomodel:
        chk.broken.append({"no_model_for": ["wblock"]})
    impl = outs.get("default", [])
    ops2 = []
    src = []
    for op, out in zip(ops, impl):
        t = op.split(" ")
        if out.startswith(("err", "panic", "abort")):
            continue
        ops2.append(f"wblock {'dec' if t[1] == 'enc' else 'enc'} {t[2]} {out}")
        src.append(t[3])
    o2, _ = chk.run_family(["default"], ops2, family="roundtrip")
    for op, s, back in zip(ops2, src, o2.get("default", [])):
        if back != s:
            chk.violation(op[:150], {"kind": "direct-oracle", "config": "default", "op": op, "impl": back, "expected": s,
                                     "oracle": "wide-block enc and dec must be inverses in both orders"})
