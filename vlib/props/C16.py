"""C16 — dropping a cipher erases every key-dependent byte (zeroize feature)."""
from ..common import hx, build_harness, CONFIGS
from .. import registry

RULE = ("every registry type x routes {new, clone, clone-of-clone} + AES/Kuznyechik conversion routes x 3 keys per probe x "
        "2 stack paints; a position is key-dependent iff it varies with the key under both paints and not with the paint; "
        "oracle: every key-dependent position is 0 after drop_in_place; builds: zeroize dev (+ release, soft/compact AES, "
        "Kuznyechik soft backends in thorough)")


def run(chk, tier):
    chk.proof_obligations("BlockCiphers.Thm.C16")
    quick = tier == "quick"
    cfgs = ["zeroize", "zeroize-cpuoff", "zeroize-kuzsoft", "zeroize-kuzcompact"] if quick else \
        ["zeroize", "zeroize-cpuoff", "zeroize-release", "zeroize-soft", "zeroize-kuzsoft", "zeroize-kuzcompact", "allfeat"]
    ok, log = build_harness(CONFIGS["zeroize"])
    if not ok:
        chk.broken.append({"config": "zeroize", "build": log[-1500:]})
        return
    reg = registry.load("zeroize")
    r = chk.rng
    ops = []
    reps = 2 if quick else 12
    for e in reg:
        for L in ([e["ks"]] if e["name"] not in registry.VAR_LENS else sorted({registry.VAR_LENS[e["name"]][0], e["ks"]})):
            if L == 0:
                continue
            for route in ("new", "clone", "clone2"):
                for _ in range(reps):
                    ks = [r.bytes(L) for _ in range(3)]
                    ops.append(f"zero {e['name']} {route} " + " ".join(hx(k) for k in ks))
        if e["name"] in registry.VAR_LENS:
            # instances keyed with keys of DIFFERENT lengths: state derived from the key length (round-count flags,
            # effective-length fields) differs between them and must be wiped too
            lens = registry.VAR_LENS[e["name"]]
            for route in ("new", "clone"):
                for _ in range(reps + 2):
                    ls = [lens[0], lens[r.below(len(lens))], lens[-1]]
                    if r.below(2):
                        ls = [lens[r.below(len(lens))] for _ in range(3)]
                    ops.append(f"zero {e['name']} {route} " + " ".join(hx(r.bytes(L)) for L in ls))
    for fam, L in (("Aes128", 16), ("Aes192", 24), ("Aes256", 32), ("Kuznyechik", 32),
                   ("Armv8Aes128", 16), ("Armv8Aes192", 24), ("Armv8Aes256", 32), ("NeonKuznyechik", 32)):
        for route in ("c.from_e", "c.from_eref", "d.from_e", "d.from_eref", "c.clone_from_e", "d.clone_from_e"):
            for _ in range(reps):
                ks = [r.bytes(L) for _ in range(3)]
                ops.append(f"zroute {fam} {route} " + " ".join(hx(k) for k in ks))
    for op in ops:
        t = op.split(" ")
        chk.case((t[1], t[2], t[3]), sample=op if r.below(60) == 0 else None)

    # A probe that finds NO key-dependent position decides nothing.  It is not a violation by itself: three random keys
    # can be the same cipher (RC2 with 1-byte keys: the effective-key reduction maps 0x8b, 0x61 and 0x2f to the same table —
    # met in the thorough tier; it was a false alarm of the earlier "probe broken?" rule).  Instead every (type, route)
    # must have at least one non-vacuous probe in the run.
    nonvac, vac = set(), {}

    def oracle(op, out):
        t = op.split(" ")
        if out.startswith("zero "):
            kd = int(out.split("keydep=")[1].split()[0])
            if kd == 0:
                vac[(t[1], t[2])] = op
            else:
                nonvac.add((t[1], t[2]))
            return None
        if out == "unsupported":
            return None if t[2].startswith("clone") and t[1] == "Xtea" else f"probe unsupported: {out}"
        return f"key-dependent bytes survive drop: {out}"
    chk.run_family(cfgs, ops, oracle=oracle)
    for key_, op in sorted(vac.items()):
        if key_ not in nonvac:
            chk.violation(op[:150] + " [vacuous]", {"kind": "direct-oracle", "op": op, "oracle": "no probe of this type and route found a key-dependent byte in the instance: the drop probe decides nothing for it"})
    chk.extra["vacuous_probes"] = len(vac)
    chk.assumptions.append("copies of key material outside the instance's own storage (moves, spills) are out of scope of the property and of the probe")
