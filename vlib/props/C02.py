"""C02 — AES types compute FIPS-197 under every backend and key size."""
from . import conf
from ..common import hx
from .gens import blocks_for
NAMES = ["Aes128", "Aes192", "Aes256", "Aes128Enc", "Aes192Enc", "Aes256Enc", "Aes128Dec", "Aes192Dec", "Aes256Dec"]
RULE = ("enc/dec lines and multi-block batches for the 9 AES types under AES-NI, detection forced off (soft arm of the "
        "autodetect wrappers), aes_force_soft, aes_compact and both, compared with the FIPS-197 Lean specification")


def run(chk, tier):
    reg = conf.prepare(chk, "BlockCiphers.Thm.C02")
    if reg is None:
        return
    quick = tier == "quick"
    r = chk.rng
    ops = conf.gen_encdec(chk, reg, NAMES, 80 if quick else 4000, 0)
    for e in reg:
        if e["name"] in NAMES:
            for i in range(10 if quick else 300):
                k = r.bytes(e["ks"])
                d = "encs" if "e" in e["caps"] else "decs"
                ops.append(f"{d} {e['name']} {conf.SHAPES[i % 3]} {r.below(16)} {hx(k)} {hx(blocks_for(r, e, 1 + r.below(30)))}")
                chk.case((e["name"], "batch", hx(k), i))
    chk.run_family(["default", "cpuoff", "forcesoft", "compact", "softcompact"], ops)
    conf.require_models(chk, NAMES)
    chk.assumptions.append("ARMv8 and fixslice32 code paths cannot be built natively on this x86-64 host (DESIGN §4.4)")
