"""C02 — AES types compute FIPS-197 under every backend and key size."""
from . import conf
from ..common import hx
from .gens import blocks_for
NAMES = ["Aes128", "Aes192", "Aes256", "Aes128Enc", "Aes192Enc", "Aes256Enc", "Aes128Dec", "Aes192Dec", "Aes256Dec"]
# the ARMv8 Cryptography Extensions backend: /repo/aes/src/armv8*.rs compiled into the harness over software intrinsics (DESIGN §4.4)
NAMES += ["Armv8" + n for n in NAMES]
RULE = ("enc/dec lines and multi-block batches for the 9 AES types (and the 9 types of the ARMv8 backend, whose source text is executed over software intrinsics) under AES-NI, detection forced off (soft arm of the "
        "autodetect wrappers), aes_force_soft, aes_compact and both, compared with the FIPS-197 Lean specification")


def run(chk, tier):
    reg = conf.prepare(chk, "BlockCiphers.Thm.C02")
    if reg is None:
        return
    quick = tier == "quick"
    r = chk.rng
    ops = conf.gen_encdec(chk, reg, NAMES, 80 if quick else 4000, 0)
    for e in reg:
        if e["name"] in NAMES:
            for i in range(10 if quick else 300):
                k = r.bytes(e["ks"])
                d = "encs" if "e" in e["caps"] else "decs"
                ops.append(f"{d} {e['name']} {conf.SHAPES[i % 3]} {r.below(16)} {hx(k)} {hx(blocks_for(r, e, 1 + r.below(30)))}")
                chk.case((e["name"], "batch", hx(k), i))
    chk.run_family(["default", "cpuoff", "forcesoft", "compact", "softcompact"], ops)
    conf.require_models(chk, NAMES)
    from . import fs32
    fs32.run(chk, 24 if quick else 800)   # fixslice32.rs (the repository's file, via #[path]) normal + compact vs its model and vs the native types
    chk.assumptions.append("the ARMv8 backend is executed over software intrinsics written from the Arm ARM pseudo-code (harness/src/arm_sw.rs); the instruction semantics themselves cannot be checked against hardware here (DESIGN §4.4); fixslice32 is executed via #[path] inclusion")
