"""C07 — Kuznyechik, Magma/GOST 28147-89 and BelT conform to their standards."""
from ..common import hx
from . import conf
NAMES = ["Kuznyechik", "KuznyechikEnc", "KuznyechikDec", "Magma", "Gost89Test", "Gost89CryptoProA", "Gost89CryptoProB",
         "Gost89CryptoProC", "Gost89CryptoProD", "Gost89User", "BeltBlock",
         # the NEON backend: /repo/kuznyechik/src/neon/*.rs compiled into the harness over software intrinsics (DESIGN §4.4)
         "NeonKuznyechik", "NeonKuznyechikEnc", "NeonKuznyechikDec"]
RULE = ("enc/dec lines for Kuznyechik (SSE2, table-driven soft, compact soft builds), Magma and the Gost89 S-box sets incl. a "
        "user-supplied non-bijective set, BeltBlock and belt_block_raw, compared with the Lean model of the standard")


def run(chk, tier):
    reg = conf.prepare(chk, "BlockCiphers.Thm.C07")
    if reg is None:
        return
    quick = tier == "quick"
    r = chk.rng
    ops = conf.gen_encdec(chk, reg, NAMES, 100 if quick else 4000, 0)
    for i in range(100 if quick else 4000):
        k, b = (r.structured(32), r.structured(16)) if i % 3 == 0 else (r.bytes(32), r.bytes(16))
        ops.append(f"beltraw {hx(k)} {hx(b)}")
        chk.case(("beltraw", hx(k), hx(b)))
    chk.run_family(["default", "kuzsoft", "kuzcompact"], ops, cross=True)
    conf.require_models(chk, NAMES)
    conf.kuz_backend_corr(chk, 40 if quick else 1500)

