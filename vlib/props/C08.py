"""C08 — Serpent, Twofish and CAST-256 conform, including variable key sizes."""
from . import conf
NAMES = ["Serpent", "Twofish", "Cast6"]
RULE = ("enc/dec lines: Serpent every key length 16..32 (unrolled and looped builds), Twofish 16/24/32, Cast6 16/20/24/28/32, "
        "structured + random, compared with the Lean model of the standard")


def run(chk, tier):
    reg = conf.prepare(chk, "BlockCiphers.Thm.C08")
    if reg is None:
        return
    quick = tier == "quick"
    ops = conf.gen_encdec(chk, reg, NAMES, 0, 20 if quick else 1500)
    chk.run_family(["default", "serpentloop"], ops)
    conf.require_models(chk, NAMES)
