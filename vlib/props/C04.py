"""C04 — multi-block and buffer-to-buffer calls equal per-block calls."""
from ..common import hx
from .. import registry
from .gens import key_for, blocks_for

RULE = ("encs/decs lines: block counts 0..3*P+2 around every parallel width (P in {1,2,3,4,8,9}), shapes inplace / inout / b2b / "
        "per-block in-place / per-block b2b / per-block inout, buffers carved at byte offsets 0..15 of canary-filled "
        "allocations; oracle on the real crate: every shape = the per-block single-call result, input buffer unchanged, "
        "canaries intact; non-trivial = batches of >= 2 pairwise different blocks")
SHAPES = ["inplace", "inout", "b2b", "single", "b2b1", "inout1"]


def run(chk, tier):
    chk.proof_obligations("BlockCiphers.Thm.C04")
    quick = tier == "quick"
    cfgs = ["default", "cpuoff", "kuzsoft"] if quick else ["default", "cpuoff", "forcesoft", "compact", "softcompact",
                                                           "kuzsoft", "kuzcompact", "serpentloop", "release"]
    from ..common import build_harness, CONFIGS
    ok, log = build_harness(CONFIGS["default"])
    if not ok:
        chk.broken.append({"config": "default", "build": log[-1500:]})
        return
    reg = registry.load()
    r = chk.rng
    ops = []
    groups = []  # (start index, count) : all lines of a group must give the same hex
    for e in reg:
        hot = e["name"].startswith(("Aes", "Kuz", "Armv8", "Neon"))
        counts = list(range(0, 30)) if hot else [0, 1, 2, 3, 5]
        if not quick and hot:
            counts = list(range(0, 66))
        for n in counts:
            for rep in range(1 if quick else 3):
                k = key_for(r, e, n)
                data = blocks_for(r, e, n)
                for d in ("encs", "decs"):
                    if d[0] not in e["caps"]:
                        continue
                    start = len(ops)
                    shapes = SHAPES if (hot or n <= 2) else ["inplace", "b2b", "single"]
                    for sh in shapes:
                        off = r.below(16)
                        ops.append(f"{d} {e['name']} {sh} {off} {hx(k)} {hx(data)}")
                    groups.append((start, len(shapes)))
                    chk.case((e["name"], d, n, hx(k), hx(data)[:64]), nontrivial=n >= 2,
                             sample=ops[start][:160] if r.below(300) == 0 else None)

    def oracle(op, out):
        if out == "unsupported":
            return None
        f = out.split(" ")
        if len(f) != 3:
            return f"unexpected result {out[:60]}"
        if f[1] != "in=ok":
            return "the separate input buffer was modified"
        if f[2] != "canary=ok":
            return "bytes outside the designated output blocks were written"
        return None
    outs, model = chk.run_family(cfgs, ops, oracle=oracle)
    for cn, impl in outs.items():
        for start, cnt in groups:
            ref = impl[start + (3 if cnt == 6 else 2)].split(" ")[0]  # the per-block `single` shape
            for i in range(start, start + cnt):
                if impl[i].split(" ")[0] != ref:
                    chk.violation(ops[i] if len(ops[i]) < 200 else ops[i][:80],
                                  {"kind": "direct-oracle", "config": cn, "op": ops[i], "impl": impl[i],
                                   "oracle": "multi-block result differs from the per-block single-call result", "single": ref})
    from . import fs32
    fs32.run(chk, 16 if tier == "quick" else 600, oracle_native=False, roundtrip=False)   # fixslice32 2-block batches = per-block calls
    chk.assumptions.append("'nothing outside the designated output blocks is written' is observed through 96-byte canaries on "
                           "sampled shapes; the Lean model has lists, not addresses (partial, DESIGN §7 C04)")
