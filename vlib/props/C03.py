"""C03 — output independent of backend, cfg flags and features."""
from ..common import hx
from .. import registry
from .gens import key_for, blocks_for
from .conf import SHAPES

RULE = ("the same operation lines (same seed) are executed by the harness built in every configuration of the matrix and "
        "the outputs compared pairwise between the real builds and against the model; lines = single-block enc/dec and "
        "multi-block batches for every registry type; non-trivial = distinct (type,key,data) with non-zero key")
QUICK = ["default", "cpuoff", "forcesoft", "compact", "softcompact", "kuzsoft", "kuzcompact", "serpentloop", "allfeat"]
THOROUGH = QUICK + ["release", "cpuoff-release", "zeroize", "hazmat", "bcrypt", "zeroize-soft", "zeroize-kuzsoft",
                    "zeroize-kuzcompact", "hazmat-soft", "hazmat-softcompact"]


def run(chk, tier):
    chk.proof_obligations("BlockCiphers.Thm.C03")
    quick = tier == "quick"
    from ..common import build_harness, CONFIGS
    ok, log = build_harness(CONFIGS["default"])
    if not ok:
        chk.broken.append({"config": "default", "build": log[-1500:]})
        return
    reg = registry.load()
    r = chk.rng
    ops = []
    for e in reg:
        hot = e["name"].startswith(("Aes", "Kuz", "Serpent", "Armv8", "Neon"))
        n = (40 if hot else 4) if quick else (1500 if hot else 100)
        for i in range(n):
            k = key_for(r, e, i)
            for d in ("enc", "dec"):
                if d[0] not in e["caps"]:
                    continue
                b = r.structured(e["bl"]) if i % 4 == 0 else r.bytes(e["bl"])
                ops.append(f"{d} {e['name']} {hx(k)} {hx(b)}")
                if hot and i % 2 == 0:
                    nb = 1 + r.below(24)
                    ops.append(f"{d}s {e['name']} {SHAPES[(i // 2) % 3]} {r.below(16)} {hx(k)} {hx(blocks_for(r, e, nb))}")
    for op in ops:
        t = op.split(" ")
        chk.case((t[1], t[-2], t[-1][:64]), nontrivial=set(t[-2]) != {"0"}, sample=op[:200] if r.below(500) == 0 else None)
    # functions outside the registry whose code differs between feature sets: the BelT wide block (zeroize-gated wiping)
    for L in ([32, 33, 47, 48, 64, 100, 257] if quick else list(range(32, 200))):
        k, d = r.bytes(32), r.bytes(L)
        ops.append(f"wblock enc {hx(k)} {hx(d)}")
        ops.append(f"wblock dec {hx(k)} {hx(d)}")
        chk.case(("wblock", L, hx(k)), nontrivial=True)
    outs, _ = chk.run_family(QUICK if quick else THOROUGH, ops, cross=True)
    # shadow backends against the native ones, type by type, on the real builds: the same (key, data) line issued for
    # `Aes128` (AES-NI / fixslice) and `Armv8Aes128` (ARMv8 source over software intrinsics), `Kuznyechik` and `NeonKuznyechik`
    idx = {op: i for i, op in enumerate(ops)}
    xops = []
    for op in ops:
        t = op.split(" ")
        if t[1].startswith(("Armv8", "Neon")):
            xops.append(op)
            xops.append(" ".join([t[0], t[1].replace("Armv8", "").replace("Neon", "")] + t[2:]))
    from ..common import run_harness
    for cn in (["default", "cpuoff"] if quick else ["default", "cpuoff", "forcesoft", "kuzsoft", "kuzcompact"]):
        res = run_harness(CONFIGS[cn], xops)
        for j in range(0, len(xops), 2):
            chk.case(("shadow-vs-native", xops[j][:80]), nontrivial=True)
            if res[j] != res[j + 1]:
                chk.violation(f"{xops[j][:150]} [shadow≠native {cn}]", {"kind": "config-divergence", "configs": ["shadow", cn], "ops": [xops[j], xops[j + 1]],
                                                                        "shadow": res[j], "native": res[j + 1]})
    from . import conf, fs32
    fs32.run(chk, 16 if quick else 600, roundtrip=False, per_block=False)   # the 32-bit fixsliced backend against the native types
    conf.kuz_backend_corr(chk, 40 if quick else 1500)
    chk.assumptions.append("ARMv8 AES and NEON Kuznyechik: the repository's source files are compiled into the harness over software "
                           "intrinsics (Armv8Aes*, NeonKuznyechik* registry types) and compared with the native backends and their Lean "
                           "models; the aarch64 instruction semantics are transcribed from the Arm ARM, not checked on hardware (DESIGN §4.4)")
