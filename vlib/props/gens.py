"""shared generators"""
from ..common import hx
from .. import registry


def key_for(r, e, i=0):
    lens = registry.spec_lens(e)
    L = lens[r.below(len(lens))] if len(lens) > 1 else lens[0]
    return r.structured(L) if i % 3 == 0 else r.bytes(L)


def blocks_for(r, e, n, distinct=True):
    """n blocks; distinct => all blocks differ beyond byte 0 (lane mix-ups must show)"""
    bs = []
    for j in range(n):
        b = bytearray(r.bytes(e["bl"]))
        if not distinct and j:
            b = bytearray(bs[0])
        bs.append(bytes(b))
    return b"".join(bs)
