"""C05 — DES and Triple-DES conform to FIPS 46-3 / SP 800-67 and their key relations."""
from ..common import hx
from . import conf

NAMES = ["Des", "TdesEde3", "TdesEde2", "TdesEee3", "TdesEee2"]
RULE = ("enc/dec lines for the 5 types (structured + random keys incl. parity variants) compared with the Lean model; key "
        "relations evaluated directly on the real crate: parity bits ignored, EDE with equal parts = DES, two-key = three-key "
        "with first part repeated, complementation")


def comp(b):
    return bytes(x ^ 0xFF for x in b)


def run(chk, tier):
    reg = conf.prepare(chk, "BlockCiphers.Thm.C05")
    if reg is None:
        return
    quick = tier == "quick"
    r = chk.rng
    ops = conf.gen_encdec(chk, reg, NAMES, 150 if quick else 6000, 0)
    chk.run_family(["default"] if quick else ["default", "release"], ops)
    conf.require_models(chk, NAMES)
    # key relations (pairs of lines that must agree, possibly after a transformation of the second output)
    rel = []
    ops2 = []

    def pair(a, b, why, f=None):
        rel.append((len(ops2), why, f))
        ops2.extend([a, b])
    for i in range(60 if quick else 3000):
        k, k2, k3, b = r.bytes(8), r.bytes(8), r.bytes(8), r.bytes(8)
        if i % 4 == 0:
            k, b = r.structured(8), r.structured(8)
        p = r.below(256)
        kp = bytes(a ^ ((p >> t) & 1) for t, a in enumerate(k))
        for d in ("enc", "dec"):
            pair(f"{d} Des {hx(k)} {hx(b)}", f"{d} Des {hx(kp)} {hx(b)}", "parity bits must be ignored")
            pair(f"{d} Des {hx(k)} {hx(b)}", f"{d} TdesEde3 {hx(k + k + k)} {hx(b)}", "EDE3 with all parts equal = DES")
            pair(f"{d} Des {hx(k)} {hx(b)}", f"{d} TdesEde2 {hx(k + k)} {hx(b)}", "EDE2 with equal parts = DES")
            pair(f"{d} TdesEde2 {hx(k + k2)} {hx(b)}", f"{d} TdesEde3 {hx(k + k2 + k)} {hx(b)}", "two-key EDE = three-key with first part repeated")
            pair(f"{d} TdesEee2 {hx(k + k2)} {hx(b)}", f"{d} TdesEee3 {hx(k + k2 + k)} {hx(b)}", "two-key EEE = three-key with first part repeated")
            pair(f"{d} Des {hx(k)} {hx(b)}", f"{d} Des {hx(comp(k))} {hx(comp(b))}", "complementation property", comp)
    outs, model = chk.run_family(["default"], ops2, family="relations")
    impl = outs.get("default", [])
    for i, why, f in rel:
        if i + 1 >= len(impl):
            continue
        a, b = impl[i], impl[i + 1]
        try:
            bb = hx(f(bytes.fromhex(b))) if f else b
        except ValueError:
            bb = b
        chk.case(("rel", ops2[i], ops2[i + 1]), nontrivial=True)
        if a != bb:
            chk.violation(f"{ops2[i]} vs {ops2[i + 1]}", {"kind": "direct-oracle", "config": "default", "ops": [ops2[i], ops2[i + 1]],
                                                         "impl": [a, b], "oracle": why})
