"""C10 — RC5, Speck, Threefish and GIFT-128 conform for every parameterisation."""
from ..common import hx
from . import conf
RULE = ("enc/dec lines for the RC5 menu (17 instantiations over 5 word sizes, rounds 0..255, key lengths 0..255), the ten Speck "
        "types, Threefish 256/512/1024 (tf lines: random tweaks, byte and u64 entry points) and Gift128, compared with the Lean "
        "model; Threefish relations (u64 = byte API, new = zero tweak) evaluated on the crate")


def run(chk, tier):
    reg = conf.prepare(chk, "BlockCiphers.Thm.C10")
    if reg is None:
        return
    quick = tier == "quick"
    r = chk.rng
    names = [e["name"] for e in reg if e["name"].startswith(("Rc5_", "Speck", "Threefish", "Gift"))]
    ops = conf.gen_encdec(chk, reg, names, 40 if quick else 2000, 0)
    rel = []
    for s in (256, 512, 1024):
        for i in range(30 if quick else 1500):
            k, t, b = (r.structured(s // 8), r.structured(16), r.structured(s // 8)) if i % 3 == 0 else (r.bytes(s // 8), r.bytes(16), r.bytes(s // 8))
            base = len(ops)
            for o in ("enc", "encu64", "dec", "decu64"):
                ops.append(f"tf {s} {hx(k)} {hx(t)} {o} {hx(b)}")
            rel.append((base, base + 1, "u64 entry point must agree with the byte entry point under little-endian encoding"))
            rel.append((base + 2, base + 3, "u64 entry point must agree with the byte entry point under little-endian encoding"))
            chk.case(("tf", s, hx(k), hx(t), hx(b)))
            if i % 3 == 1:
                z = len(ops)
                ops.append(f"tf {s} {hx(k)} {hx(bytes(16))} enc {hx(b)}")
                ops.append(f"enc Threefish{s} {hx(k)} {hx(b)}")
                rel.append((z, z + 1, "KeyInit::new must mean the zero tweak"))
    outs, model = chk.run_family(["default"] if quick else ["default", "release"], ops)
    conf.require_models(chk, names)

    impl = outs.get("default", [])
    for i, j, why in rel:
        if j < len(impl) and impl[i] != impl[j]:
            chk.violation(f"{ops[i]} vs {ops[j]}"[:190], {"kind": "direct-oracle", "config": "default", "ops": [ops[i], ops[j]],
                                                        "impl": [impl[i], impl[j]], "oracle": why})
