"""Cipher registry as seen by the checks: read from the harness (`list`), plus the accepted key
lengths *as the properties state them* (C11 text), independent of the code."""
from . import common


def load(cfgname="default"):
    cfg = common.CONFIGS[cfgname]
    rc, out, err = common.sh([cfg.binary(), "list"])
    reg = []
    for l in out.splitlines():
        n, bl, ks, caps, size = l.split()
        reg.append({"name": n, "bl": int(bl), "ks": int(ks), "caps": caps, "size": int(size)})
    return reg


VAR_LENS = {
    "Blowfish": list(range(4, 57)), "BlowfishLE": list(range(4, 57)),
    "Cast5": list(range(5, 17)), "Cast6": [16, 20, 24, 28, 32],
    "Rc2": list(range(1, 129)), "Serpent": list(range(16, 33)), "Twofish": [16, 24, 32],
}


def spec_lens(e):
    return VAR_LENS.get(e["name"], [e["ks"]])


# entries that have a listed known finding preventing construction
def constructible(e):
    return True
