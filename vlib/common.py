"""Shared machinery of /verif/check: PRNG, builds, running harness and driver, decision rule, evidence."""
import hashlib
import json
import os
import re
import subprocess
import sys
import time

ROOT = os.path.dirname(os.path.dirname(os.path.abspath(__file__)))
LEAN = os.path.join(ROOT, "lean")
BUILD = os.environ.get("VERIF_BUILD_DIR") or os.path.join(ROOT, ".build")
REPO = "/repo"
ALLOWED_AXIOMS = {"propext", "Classical.choice", "Quot.sound"}

os.environ.setdefault("CARGO_NET_OFFLINE", "true")


# ------------------------------------------------------------------------------------------------
class Rng:
    """splitmix64; every random choice of a check derives from VERIF_SEED through one instance."""

    def __init__(self, seed):
        self.s = seed & 0xFFFFFFFFFFFFFFFF

    def next(self):
        self.s = (self.s + 0x9E3779B97F4A7C15) & 0xFFFFFFFFFFFFFFFF
        z = self.s
        z = ((z ^ (z >> 30)) * 0xBF58476D1CE4E5B9) & 0xFFFFFFFFFFFFFFFF
        z = ((z ^ (z >> 27)) * 0x94D049BB133111EB) & 0xFFFFFFFFFFFFFFFF
        return z ^ (z >> 31)

    def below(self, n):
        return self.next() % n

    def choice(self, xs):
        return xs[self.below(len(xs))]

    def bytes(self, n):
        out = bytearray()
        while len(out) < n:
            out += self.next().to_bytes(8, "little")
        return bytes(out[:n])

    def structured(self, n):
        """structured byte strings: constants, walking bits, low weight, equal halves, carries, random"""
        k = self.below(12)
        if n == 0:
            return b""
        if k == 0:
            return bytes(n)
        if k == 1:
            return b"\xff" * n
        if k == 2:
            b = bytearray(n)
            i = self.below(8 * n)
            b[i // 8] = 1 << (i % 8)
            return bytes(b)
        if k == 3:
            return bytes([self.below(256)]) * n
        if k == 4:
            b = bytearray(n)
            for _ in range(1 + self.below(3)):
                i = self.below(8 * n)
                b[i // 8] |= 1 << (i % 8)
            return bytes(b)
        if k == 5:
            h = self.bytes((n + 1) // 2)
            return (h + h)[:n]
        if k == 6:
            return bytes(self.choice([0x00, 0xFF, 0x80, 0x7F, 0x01, 0xFE]) for _ in range(n))
        if k == 7:
            b = bytearray(b"\xff" * n)
            i = self.below(8 * n)
            b[i // 8] ^= 1 << (i % 8)
            return bytes(b)
        return self.bytes(n)


def hx(b):
    return b.hex() if len(b) else "-"


def unhx(s):
    return b"" if s == "-" else bytes.fromhex(s)


def seed():
    try:
        return int(os.environ.get("VERIF_SEED", "1"))
    except ValueError:
        return 1


# ------------------------------------------------------------------------------------------------
def sh(cmd, cwd=None, env=None, timeout=None, input=None):
    e = dict(os.environ)
    if env:
        e.update(env)
    p = subprocess.run(cmd, cwd=cwd, env=e, capture_output=True, text=True, timeout=timeout, input=input)
    return p.returncode, p.stdout, p.stderr


class Config:
    """one build configuration of the harness"""

    def __init__(self, name, profile="dev", features=(), rustflags="", env=None, build_as=None, cargo_env=None):
        self.name, self.profile, self.features, self.rustflags = name, profile, tuple(features), rustflags
        self.cargo_env = dict(cargo_env or {})
        self.env = dict(env or {})
        self.build_as = build_as or name  # run-time variants share the binary of another configuration

    def target_dir(self):
        return os.path.join(BUILD, "h-" + self.build_as)

    def binary(self):
        return os.path.join(self.target_dir(), "release" if self.profile == "release" else "debug", "bc-harness")


CONFIGS = {
    "default": Config("default"),
    "release": Config("release", profile="release"),
    "zeroize": Config("zeroize", features=("zeroize",)),
    "zeroize-release": Config("zeroize-release", profile="release", features=("zeroize",)),
    "allfeat": Config("allfeat", features=("zeroize", "hazmat", "bcrypt")),
    "bcrypt": Config("bcrypt", features=("bcrypt",)),
    "hazmat": Config("hazmat", features=("hazmat",)),
    # CPU feature detection forced off at run time through the cpufeatures shim: autodetect -> soft arm
    "cpuoff": Config("cpuoff", env={"VERIF_CPU_OFF": "1"}, build_as="default"),
    "cpuoff-release": Config("cpuoff-release", profile="release", env={"VERIF_CPU_OFF": "1"}, build_as="release"),
    "zeroize-cpuoff": Config("zeroize-cpuoff", features=("zeroize",), env={"VERIF_CPU_OFF": "1"}, build_as="zeroize"),
    "hazmat-cpuoff": Config("hazmat-cpuoff", features=("hazmat",), env={"VERIF_CPU_OFF": "1"}, build_as="hazmat"),
    # unoptimised dev build: partially initialised unions / moves are not merged into whole-struct copies
    "o0": Config("o0", cargo_env={"CARGO_PROFILE_DEV_OPT_LEVEL": "0"}),
    "cpuoff-o0": Config("cpuoff-o0", env={"VERIF_CPU_OFF": "1"}, build_as="o0", cargo_env={"CARGO_PROFILE_DEV_OPT_LEVEL": "0"}),
    "zeroize-o0": Config("zeroize-o0", features=("zeroize",), cargo_env={"CARGO_PROFILE_DEV_OPT_LEVEL": "0"}),
    "zeroize-cpuoff-o0": Config("zeroize-cpuoff-o0", features=("zeroize",), env={"VERIF_CPU_OFF": "1"}, build_as="zeroize-o0",
                                cargo_env={"CARGO_PROFILE_DEV_OPT_LEVEL": "0"}),
    "forcesoft": Config("forcesoft", rustflags="--cfg aes_force_soft"),
    "compact": Config("compact", rustflags="--cfg aes_compact"),
    "softcompact": Config("softcompact", rustflags="--cfg aes_force_soft --cfg aes_compact"),
    "hazmat-soft": Config("hazmat-soft", features=("hazmat",), rustflags="--cfg aes_force_soft"),
    "hazmat-softcompact": Config("hazmat-softcompact", features=("hazmat",),
                                 rustflags="--cfg aes_force_soft --cfg aes_compact"),
    "kuzsoft": Config("kuzsoft", rustflags='--cfg kuznyechik_backend="soft"'),
    "kuzcompact": Config("kuzcompact", rustflags='--cfg kuznyechik_backend="compact_soft"'),
    "serpentloop": Config("serpentloop", rustflags="--cfg serpent_no_unroll"),
    "zeroize-soft": Config("zeroize-soft", features=("zeroize",), rustflags="--cfg aes_force_soft"),
    "zeroize-kuzsoft": Config("zeroize-kuzsoft", features=("zeroize",), rustflags='--cfg kuznyechik_backend="soft"'),
    "zeroize-kuzcompact": Config("zeroize-kuzcompact", features=("zeroize",),
                                 rustflags='--cfg kuznyechik_backend="compact_soft"'),
}


SHADOW_STALE = {}   # configuration name -> why the shadow build of the aarch64 backends fell back to the pinned sources
SHADOW_PROPS = {"C01", "C02", "C03", "C04", "C07", "C12", "C15", "C16", "C17", "C20"}   # properties that quantify over backends


def _cargo_build(cfg, extra_env=None):
    cmd = ["cargo", "build", "--offline", "--quiet"]
    if cfg.profile == "release":
        cmd.append("--release")
    if cfg.features:
        cmd += ["--features", ",".join(cfg.features)]
    env = {"CARGO_TARGET_DIR": cfg.target_dir(), "CARGO_NET_OFFLINE": "true"}
    env.update(cfg.cargo_env)
    flags = cfg.rustflags
    env["RUSTFLAGS"] = (flags + " -Awarnings").strip()
    env.update(extra_env or {})
    rc, out, err = sh(cmd, cwd=os.path.join(ROOT, "harness"), env=env, timeout=1800)
    return rc == 0, out + err


def build_harness(cfg):
    """cargo build of the harness against /repo's working tree; returns (ok, log).

    The harness also contains the shadow builds of the two aarch64 backends (harness/build.rs: mechanical rewrites of the
    *current* /repo text over software intrinsics).  When that part no longer builds — a rewrite rule does not match the
    changed source, or the rewritten text does not compile — the rest of the harness must stay usable (otherwise a change
    confined to `aes/src/armv8*` or `kuznyechik/src/neon` would take every check of every property down with it and no
    failing input could be searched for): the build is retried with the shadows generated from the pinned copy of those
    sources (harness/shadow_pinned).  The fall-back is recorded in SHADOW_STALE; `Check.run_family`/`finish` turn it into a
    broken obligation for the properties that quantify over backends."""
    first_env = {}
    if os.environ.get("VERIF_TEST_BREAK_SHADOW"):
        first_env = {"VERIF_KUZ_SRC": "/nonexistent"}
    ok, log = _cargo_build(cfg, first_env)
    if ok:
        SHADOW_STALE.pop(cfg.build_as, None)
        return True, log
    pinned = os.path.join(ROOT, "harness", "shadow_pinned")
    ok2, log2 = _cargo_build(cfg, {"VERIF_AES_SRC": os.path.join(pinned, "aes", "src"),
                                   "VERIF_KUZ_SRC": os.path.join(pinned, "kuznyechik", "src")})
    if ok2:
        why = [l.strip() for l in log.splitlines() if "shadow" in l and ("panicked" in l or "shadow_kuz_neon" in l or "armv8 shadow" in l)]
        SHADOW_STALE[cfg.build_as] = (why[:3] or [log[-600:]])
        return True, log2
    return False, log


def run_harness(cfg, ops, extra_env=None):
    env = dict(cfg.env)
    env.update(extra_env or {})
    rc, out, err = sh([cfg.binary(), "run"], input="\n".join(ops) + "\n", env=env, timeout=3600)
    lines = out.split("\n")
    if lines and lines[-1] == "":
        lines.pop()
    if rc != 0 or len(lines) != len(ops):
        # the process died (abort): bisect is done by the caller; report what we have
        lines += ["abort"] * (len(ops) - len(lines))
    return lines


def driver_bin():
    return os.path.join(LEAN, ".lake", "build", "bin", "driver")


def run_driver(ops):
    rc, out, err = sh([driver_bin()], input="\n".join(ops) + "\n", timeout=3600)
    lines = out.split("\n")
    if lines and lines[-1] == "":
        lines.pop()
    if len(lines) != len(ops):
        lines += ["driver-abort"] * (len(ops) - len(lines))
    return lines


# ------------------------------------------------------------------------------------------------
def run_translator():
    """regenerate lean/BlockCiphers/Gen/*.lean from /repo; returns dict of broken extractions"""
    # a change inside the kuznyechik crate regenerates ~12 files whose const-fn tables the translator has to evaluate
    # (≈ 10–13 min); everything else is seconds (per-crate cache)
    try:
        rc, out, err = sh([sys.executable, os.path.join(ROOT, "translator", "translate.py")], timeout=3600)
    except subprocess.TimeoutExpired:
        return ["translator did not finish within 3600 s"]
    broken = []
    for l in out.splitlines():
        if l.startswith("BROKEN "):
            broken.append(l[7:])
    if rc != 0:
        broken.append("translator crashed: " + err[-400:])
    return broken


def lake_build(targets):
    """returns (ok, log)"""
    # a proof obligation that no longer terminates in reasonable time (a definitional-equality check can run away after a
    # semantic change of the source) is a broken obligation, not a hung check
    limit = int(os.environ.get("VERIF_LAKE_TIMEOUT", "2400"))
    import signal
    p = subprocess.Popen(["lake", "build"] + targets, cwd=LEAN, stdout=subprocess.PIPE, stderr=subprocess.STDOUT, text=True,
                         start_new_session=True)
    try:
        out, _ = p.communicate(timeout=limit)
    except subprocess.TimeoutExpired:
        try:
            os.killpg(p.pid, signal.SIGKILL)
        except OSError:
            pass
        out, _ = p.communicate()
        return False, f"error: lake build of {targets} did not finish within {limit} s (a proof obligation no longer terminates)\n" + (out or "")[-3000:]
    return p.returncode == 0, out or ""


THM_RE = re.compile(r"^\s*(?:private\s+)?theorem\s+([A-Za-z_][A-Za-z0-9_.']*)", re.M)
NS_RE = re.compile(r"^\s*namespace\s+([A-Za-z0-9_.]+)", re.M)


def theorems_of(module):
    """fully qualified names of the theorems stated in a Thm module (namespaces tracked line by line)"""
    path = os.path.join(LEAN, *module.split(".")) + ".lean"
    src = open(path).read()
    src_nc = re.sub(r"/-.*?-/", "", src, flags=re.S)
    src_nc = re.sub(r"--[^\n]*", "", src_nc)
    ns = []
    names = []
    for l in src_nc.split("\n"):
        m = re.match(r"^\s*namespace\s+([A-Za-z0-9_.]+)", l)
        if m:
            ns.append(m.group(1))
            continue
        m = re.match(r"^\s*end\s+([A-Za-z0-9_.]+)", l)
        if m and ns and ns[-1] == m.group(1):
            ns.pop()
            continue
        # `private theorem`s are helper lemmas that cannot be named from another file; whatever axiom they use is
        # inherited by (and reported for) the public theorems that depend on them
        m = re.match(r"^\s*theorem\s+([A-Za-z_][A-Za-z0-9_.']*)", l)
        if m:
            names.append(".".join(ns + [m.group(1)]))
    return names, src


FORBIDDEN = re.compile(r"\bsorry\b|\badmit\b|^\s*axiom\s|native_decide|implemented_by|\bunsafe\s|maxHeartbeats\s+0\b", re.M)


def grep_forbidden():
    """source-level audit over every Lean file of the project (comments stripped)"""
    hits = []
    for dp, dn, fn in os.walk(LEAN):
        if ".lake" in dp:
            continue
        for f in fn:
            if not f.endswith(".lean"):
                continue
            s = open(os.path.join(dp, f)).read()
            s = re.sub(r"/-.*?-/", "", s, flags=re.S)
            s = re.sub(r"--[^\n]*", "", s)
            for m in FORBIDDEN.finditer(s):
                hits.append(f"{os.path.relpath(os.path.join(dp, f), LEAN)}: {m.group(0).strip()}")
    return hits


def audit_axioms(module, names):
    """#print axioms for every theorem; returns {name: [axioms]} and the list of disallowed ones"""
    if not names:
        return {}, []
    src = f"import {module}\n" + "".join(f"#print axioms {n}\n" for n in names)
    os.makedirs(os.path.join(BUILD, "audit"), exist_ok=True)
    p = os.path.join(BUILD, "audit", module.replace(".", "_") + ".lean")
    open(p, "w").write(src)
    rc, out, err = sh(["lake", "env", "lean", p], cwd=LEAN, timeout=3600)
    res = {}
    cur = None
    text = out + err
    for m in re.finditer(r"'(\S+?)' (?:depends on axioms: \[([^\]]*)\]|does not depend on any axioms)", text, re.S):
        name = m.group(1)
        ax = [a.strip() for a in (m.group(2) or "").replace("\n", " ").split(",") if a.strip()]
        res[name] = ax
    bad = []
    for n in names:
        if n not in res:
            bad.append(f"{n}: no axiom report")
            continue
        for a in res[n]:
            if a in ALLOWED_AXIOMS:
                continue
            if "_native.bv_decide.ax" in a:
                continue  # accepted, listed in evidence (DESIGN §9)
            bad.append(f"{n}: {a}")
    return res, bad


# ------------------------------------------------------------------------------------------------
class Known:
    """known_findings.txt: `known: property=<id> key=<regex> :: <what fails>` and `fixed: ...` lines"""

    def __init__(self):
        self.entries = []
        p = os.path.join(ROOT, "known_findings.txt")
        if os.path.exists(p):
            for l in open(p):
                l = l.strip()
                m = re.match(r"known:\s+property=(\S+)\s+key=(\S+)\s+::\s+(.*)", l)
                if m:
                    self.entries.append((m.group(1), m.group(2), m.group(3)))

    def match(self, pid, key):
        for (p, k, what) in self.entries:
            if p == pid and k == key:
                return what
        return None


P_ = "BlockCiphers.Proofs."
TIES = {
    # code-level round trips: theorems whose statements mention only functions regenerated from /repo on this run
    "C01": [P_ + x for x in ["CodeXtea", "CodeSm4", "CodeCamellia", "CodeAria", "CodeMagma", "CodeBelt", "CodeDes", "CodeGift", "CodeSerpent",
                             "CodeAesFs64", "CodeAesFs32", "CodeAesNi", "CodeAesArmv8", "CodeCast6", "CodeThreefish", "CodeKuznyechik", "CodeKuznyechikSoft",
                             "CodeSpeck", "CodeCast5", "CodeRc2", "CodeKuznyechikSse2", "CodeKuznyechikNeon", "CodeBlowfish", "CodeRc5", "CodeTwofish", "CodeRc5Keyed", "CodeBeltWide"]],
    "C02": [P_ + x for x in ["GenAesFs64Base", "GenAesFs64Ed128", "GenAesFs64Ed192", "GenAesFs64Ed256", "GenAesFs64Ed128c", "GenAesFs64Ed192c",
                             "GenAesFs64Ed256c", "GenAesFs64Ks128", "GenAesFs64Ks192", "GenAesFs64Ks256", "GenAesFs32", "GenAesFs32Keys",
                             "CodeAesFs64", "CodeAesFs32", "GenAesNi", "GenAesArmv8", "CodeAesNi", "CodeAesArmv8"]],
    "C04": [P_ + x for x in ["GenAesNi", "GenAesArmv8", "CodeAesNi", "CodeAesArmv8", "CodeKuznyechikSse2", "CodeKuznyechikNeon"]],
    "C17": [P_ + x for x in ["GenAesNi", "GenAesArmv8", "CodeAesNi", "CodeAesArmv8", "GenAesFs64Hazmat", "GenAesFs32Hazmat"]],
    "C05": [P_ + x for x in ["GenCipherDes", "GenKeysDes", "CodeDes"]],
    "C06": [P_ + x for x in ["GenCipherAria", "GenKeysAria", "GenCipherCamellia", "GenKeysCamellia", "GenCipherSm4", "GenKeysSm4",
                             "CodeAria", "CodeCamellia", "CodeSm4"]],
    "C07": [P_ + x for x in ["GenCipherMagma", "GenKeysMagma", "GenCipherBelt", "GenKeysBelt", "CodeMagma", "CodeBelt", "GenCipherKuznyechik", "GenKeysKuznyechik",
                             "GenFuncsKuznyechik", "GenCipherKuznyechikSoft", "GenKeysKuznyechikSoft", "GenKuznyechikSoftTables", "CodeKuznyechik", "CodeKuznyechikSoft",
                             "GenCipherKuznyechikSse2", "GenKeysKuznyechikSse2", "GenCipherKuznyechikNeon", "GenKeysKuznyechikNeon",
                             "CodeKuznyechikSse2", "CodeKuznyechikNeon"]],
    "C03": [P_ + x for x in ["CodeKuznyechikSse2", "CodeKuznyechikNeon", "CodeKuznyechik", "CodeKuznyechikSoft"]],
    "C14": [P_ + x for x in ["GenCipherBlowfish", "CodeBlowfish"]],
    "C18": [P_ + x for x in ["GenBeltWideKatA", "GenBeltWideKatB", "GenBeltWideKatC", "GenBeltWide", "CodeBeltWide"]],
    "C08": [P_ + x for x in ["GenCipherSerpent", "GenKeysSerpent", "GenCipherCast6", "GenKeysCast6", "CodeSerpent", "CodeCast6", "GenFnTwofish", "GenCipherTwofish", "GenKeysTwofish", "CodeTwofish"]],
    "C09": [P_ + x for x in ["GenCipherCast5", "GenCipherRc2", "GenCipherXtea", "GenKeysXtea", "CodeXtea", "GenKeysCast5", "CodeCast5", "GenKeysRc2", "CodeRc2", "GenFnIdea", "GenCipherIdea", "GenKeysIdea", "CodeIdea",
                             "GenCipherBlowfish", "CodeBlowfish"]],
    "C13": [P_ + x for x in ["GenFnWeak", "CodeWeak"]],
    "C10": [P_ + x for x in ["GenCipherSpeck", "GenCipherThreefish", "GenKeysThreefish", "GenCipherGift", "GenKeysGift", "CodeGift", "GenKeysSpeck", "CodeSpeck", "CodeThreefish", "GenCipherRc5", "CodeRc5", "GenKeysRc5Kat", "GenKeysRc5", "CodeRc5Keyed"]],
}


class Check:
    """accumulates obligations, correspondence results and violations for one property run"""

    def __init__(self, pid, tier):
        self.pid, self.tier = pid, tier
        self.t0 = time.time()
        self.seed = seed()
        self.rng = Rng(self.seed * 1000003 + int(hashlib.sha256(pid.encode()).hexdigest()[:8], 16))
        self.violations = []  # (key, replay dict)
        self.known_hits = []
        self.broken = []  # obligations that no longer check (names)
        self.obligations = 0
        self.discharged = 0
        self.axioms = {}
        self.evals = 0
        self.distinct = set()
        self.samples = []
        self.hist = {}
        self.nomodel = {}
        self.model_compared = 0
        self.notes = []
        self.configs = []
        self.known = Known()
        self.trusted = [
            "Lean 4.33 kernel",
            "axioms propext / Classical.choice / Quot.sound; bv_decide lemmas additionally Lean.ofReduceBool (listed under axioms)",
            "translator /verif/translator/translate.py for the Gen/* definitions",
            "correspondence harness (/verif/harness) + driver (lean/Driver.lean) + diff for hand-written Impl models",
        ]
        self.assumptions = []
        self.extra = {}

    # ---- obligations -------------------------------------------------------------------------
    def proof_obligations(self, module, extra_targets=(), ties=None):
        """translator + lake build of the property's theorem module + axiom audit.
        ties: further proof modules whose theorems are obligations of this property — the `Gen… = Impl…` theorems that tie
        the functions regenerated from /repo on this run (Gen/Cipher_*, Keys_*, Aes_*) to the model the property theorems
        are about; default: the table TIES below."""
        broken = run_translator()
        for b in broken:
            self.note_hist("translator-broken")
        ties = list(TIES.get(self.pid, []) if ties is None else ties)
        ties = [t for t in ties if os.path.exists(os.path.join(LEAN, *t.split(".")) + ".lean")]
        ok, log = lake_build([module, "driver"] + list(extra_targets) + ties)
        names, _ = theorems_of(module)
        tie_names = {}
        for t in ties:
            tn, _ = theorems_of(t)
            tie_names[t] = tn
        self.extra["tie_modules"] = {t: len(v) for t, v in tie_names.items()}
        self.obligations += sum(len(v) for v in tie_names.values())
        self.obligations += len(names) + 1  # + source audit
        if not ok:
            failed = sorted(set(re.findall(r"error: ([^\n]*)", log)))
            # the text that follows an error (bv_decide prints its counter-example there: the inputs on which the
            # regenerated function and the model differ) is kept in the replay file
            detail = [m.group(0)[:1500] for m in re.finditer(r"error: [^\n]*counterexample[^\n]*\n(?:(?!error:|warning:|✖|✔)[^\n]*\n){0,40}", log)]
            self.broken.append({"module": module, "errors": failed[:20], "counterexamples": detail[:6], "translator": broken})
            # try to find out which theorems still hold: none counted
            return False
        forb = grep_forbidden()
        if forb:
            self.broken.append({"module": module, "forbidden": forb})
        else:
            self.discharged += 1
        ax, bad = audit_axioms(module, names)
        self.axioms.update(ax)
        if bad:
            self.broken.append({"module": module, "axioms": bad})
        self.discharged += len([n for n in names if n in ax and not any(b.startswith(n + ":") for b in bad)])
        for t, tn in tie_names.items():
            ax2, bad2 = audit_axioms(t, tn)
            # the tie modules are large: only the axioms that are not the three standard ones are kept in the evidence
            self.axioms.update({k: v for k, v in ax2.items() if any(a not in ALLOWED_AXIOMS for a in v)})
            if bad2:
                self.broken.append({"module": t, "axioms": bad2})
            self.discharged += len([n for n in tn if n in ax2 and not any(b.startswith(n + ":") for b in bad2)])
            names = names + tn
        self.checker_cmd = f"cd /verif/lean && lake build {module} driver && lake env lean .build/audit (#print axioms of {len(names)} theorems)"
        self.thm_names = names
        return not self.broken

    # ---- bookkeeping -------------------------------------------------------------------------
    def note_hist(self, k, n=1):
        self.hist[k] = self.hist.get(k, 0) + n

    def case(self, ident, nontrivial=True, sample=None):
        self.evals += 1
        if nontrivial:
            self.distinct.add(ident)
        if sample is not None and len(self.samples) < 12:
            self.samples.append(sample)

    def violation(self, key, replay):
        what = self.known.match(self.pid, key)
        if what is not None:
            if key not in [k for k, _ in self.known_hits]:
                self.known_hits.append((key, what))
            return
        if key not in [k for k, _ in self.violations]:
            self.violations.append((key, replay))

    # ---- correspondence ----------------------------------------------------------------------
    def compare(self, cfgname, ops, impl, model, oracle=None, family=""):
        """diff implementation vs model line by line; `oracle(op, impl_line)` returns None or a
        description of a direct property violation (evaluated on the real crate's output only)."""
        for op, a, b in zip(ops, impl, model):
            if op.startswith("#") or not op:
                continue
            fam = family or op.split(" ")[0]
            self.note_hist(f"{cfgname}:{fam}")
            if a.startswith("panic:") or a == "abort":
                self.note_hist("impl-" + a)
            if oracle is not None:
                r = oracle(op, a)
                if r:
                    self.violation(f"{op} -> {a}" if len(op) < 200 else hashlib.sha256(op.encode()).hexdigest()[:16],
                                   {"kind": "direct-oracle", "config": cfgname, "op": op, "impl": a, "model": b, "oracle": r})
                    continue
            if b == "nomodel":
                c = op.split(" ")[1] if " " in op else op
                self.nomodel[c] = self.nomodel.get(c, 0) + 1
                continue
            self.model_compared += 1
            if a != b:
                self.violation(f"{op} -> {a}" if len(op) < 200 else hashlib.sha256(op.encode()).hexdigest()[:16],
                               {"kind": "impl-vs-model", "config": cfgname, "op": op, "impl": a, "model": b})

    def run_family(self, cfgnames, ops, oracle=None, family="", cross=False):
        """build configs, run ops on each + once on the driver, compare.  cross=True additionally
        compares the implementations pairwise (C03)."""
        model = run_driver(ops)
        outs = {}
        for cn in cfgnames:
            cfg = CONFIGS[cn]
            ok, log = build_harness(cfg)
            if cn not in self.configs:
                self.configs.append(cn)
            if not ok:
                self.broken.append({"config": cn, "build": log[-1500:]})
                continue
            impl = run_harness(cfg, ops)
            outs[cn] = impl
            self.compare(cn, ops, impl, model, oracle, family)
        if cross and len(outs) > 1:
            names = list(outs)
            base = names[0]
            for cn in names[1:]:
                for op, a, b in zip(ops, outs[base], outs[cn]):
                    if a != b:
                        self.violation(f"{op} [{base}≠{cn}]" if len(op) < 200 else hashlib.sha256(op.encode()).hexdigest()[:16],
                                       {"kind": "config-divergence", "configs": [base, cn], "op": op, base: a, cn: b})
        return outs, model

    # ---- finish ------------------------------------------------------------------------------
    def finish(self, level="proof", rule="", explanation=""):
        wall = time.time() - self.t0
        if SHADOW_STALE:
            self.extra["shadow_build_fell_back_to_pinned_sources"] = dict(SHADOW_STALE)
            if self.pid in SHADOW_PROPS:
                self.broken.append({"shadow_build": "the aarch64 shadow build no longer applies to the current sources of /repo; the "
                                    "Armv8Aes* / NeonKuznyechik* types were built from the pinned copy and decide nothing", "detail": dict(SHADOW_STALE)})
        os.makedirs(os.path.join(ROOT, "evidence"), exist_ok=True)
        os.makedirs(os.path.join(ROOT, "replays"), exist_ok=True)
        lines = []
        for key, what in self.known_hits:
            lines.append(f"KNOWN-FINDING: property={self.pid} {what}")
        rc = 0
        nviol = 0
        for key, rep in self.violations:
            h = hashlib.sha256((self.pid + key).encode()).hexdigest()[:12]
            path = os.path.join(ROOT, "replays", f"{self.pid}-{h}.json")
            rep = dict(rep)
            rep.update({"property": self.pid, "seed": self.seed, "tier": self.tier, "key": key})
            json.dump(rep, open(path, "w"), indent=1)
            lines.append(f"VIOLATION property={self.pid} replay={path}")
            rc = 1
            nviol += 1
        if self.broken and not self.violations:
            h = hashlib.sha256((self.pid + json.dumps(self.broken, sort_keys=True)).encode()).hexdigest()[:12]
            path = os.path.join(ROOT, "replays", f"{self.pid}-broken-{h}.json")
            json.dump({"property": self.pid, "seed": self.seed, "tier": self.tier,
                       "no_longer_checks": self.broken,
                       "note": "a proof obligation / extraction / build no longer checks and the search found no failing input"},
                      open(path, "w"), indent=1)
            lines.append(f"VIOLATION property={self.pid} replay={path} no-failing-input-found")
            rc = 1
            nviol += 1
        cov = {
            "obligations": self.obligations,
            "discharged": self.discharged,
            "checker_cmd": getattr(self, "checker_cmd", "n/a"),
            "trusted_base": self.trusted,
            "evaluations": self.evals,
            "distinct_nontrivial": len(self.distinct),
            "rule": rule,
            "samples": self.samples[:12],
            "model_compared_lines": self.model_compared,
            "no_model_lines_by_cipher": self.nomodel,
            "input_distribution": dict(sorted(self.hist.items())),
            "configurations": self.configs,
            "axioms": {k: v for k, v in self.axioms.items()},
            "theorems": getattr(self, "thm_names", []),
            "known_findings_replayed": [k for k, _ in self.known_hits],
            "broken_obligations": self.broken,
            "explanation": explanation,
        }
        cov.update(self.extra)
        ev = {
            "property_id": self.pid, "tier": self.tier, "seed": self.seed, "level": level,
            "coverage": cov, "assumptions": self.assumptions + self.notes, "wall_s": round(wall, 2),
            "violations": nviol,
        }
        json.dump(ev, open(os.path.join(ROOT, "evidence", f"{self.pid}.json"), "w"), indent=1)
        for l in lines:
            print(l)
        print(f"[{self.pid} {self.tier}] obligations {self.discharged}/{self.obligations}, evaluations {self.evals}, "
              f"distinct {len(self.distinct)}, model-compared {self.model_compared}, violations {nviol}, "
              f"known {len(self.known_hits)}, {wall:.1f}s")
        return rc
