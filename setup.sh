#!/bin/sh
# Build the framework from files on disk only (offline).
set -e
cd "$(dirname "$0")"
export CARGO_NET_OFFLINE=true
mkdir -p .build
python3 translator/translate.py >/dev/null
(cd lean && lake build)
(cd harness && CARGO_TARGET_DIR=../.build/h-default RUSTFLAGS=-Awarnings cargo build --offline --quiet)
echo setup-ok
