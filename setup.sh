#!/bin/sh
# Build the framework from files on disk only (offline): translator output, the Lean project (all models, proofs and
# property theorems, the driver executable) and the harness in every configuration the quick checks use.
set -e
cd "$(dirname "$0")"
export CARGO_NET_OFFLINE=true
mkdir -p .build
python3 translator/translate.py >/dev/null
(cd lean && lake build)
python3 - <<'PY'
import sys
sys.path.insert(0, ".")
from vlib import common
names = ["default", "release", "zeroize", "hazmat", "bcrypt", "allfeat", "forcesoft", "compact", "softcompact", "kuzsoft",
         "kuzcompact", "serpentloop", "hazmat-soft", "hazmat-softcompact", "zeroize-kuzsoft", "zeroize-kuzcompact", "o0"]
bad = []
for n in names:
    ok, log = common.build_harness(common.CONFIGS[n])
    print(("built " if ok else "FAILED ") + n, flush=True)
    if not ok:
        bad.append(n)
        print(log[-2000:])
sys.exit(1 if bad else 0)
PY
echo setup-ok
